// verifcheck is the driver behind /verif/check: it regenerates the overlay from
// /repo's working tree, builds the worker, fans simulated runs out over worker
// processes, confirms + minimises violations, writes replay files and evidence.
//
//	verifcheck <C11|C17|C18> <quick|thorough>
//	verifcheck replay <file>
//
// Exit: 0 property held on everything explored (known findings are printed),
// 1 + "VIOLATION property=<id> replay=<path>" for a violation, 2 for harness trouble.
package main

import (
	"bufio"
	"bytes"
	"context"
	"crypto/sha256"
	"encoding/hex"
	"encoding/json"
	"fmt"
	"os"
	"os/exec"
	"path/filepath"
	"runtime"
	"sort"
	"strconv"
	"strings"
	"sync"
	"time"
)

// root is /verif, or the directory of the snapshot the check script was started from (vp run).
var root = func() string {
	if r := os.Getenv("VERIF_ROOT"); r != "" {
		return r
	}
	return "/verif"
}()

var goBin = "go1.26.8"

type propCfg struct {
	race        bool
	level       string
	quickRuns   int64
	thorRuns    int64
	quickBudget float64 // seconds of wall clock for the fan-out
	thorBudget  float64
	scenarios   []fixedScenario // enumerated scenarios run in addition to the random ones
	components  map[string]string
	assumptions []string
	rule        string
}

type fixedScenario struct {
	name       string
	params     string
	thorParams string
	enum       bool // size comes from `worker -enumsize`
	runs       func(tier string) int64
}

var propsCfg = map[string]*propCfg{}

type violation struct {
	Class string `json:"class"`
	Key   string `json:"key"`
	Msg   string `json:"msg"`
}

type runRec struct {
	Property   string           `json:"property"`
	Scenario   string           `json:"scenario"`
	Index      int64            `json:"index"`
	Seed       uint64           `json:"seed"`
	Hash       uint64           `json:"hash"`
	Steps      int64            `json:"steps"`
	SimNs      int64            `json:"sim_ns"`
	NonTrivial bool             `json:"nontrivial"`
	Violation  *violation       `json:"violation,omitempty"`
	Inconcl    string           `json:"inconclusive,omitempty"`
	Choices    []uint32         `json:"choices,omitempty"`
	Kinds      []uint8          `json:"kinds,omitempty"`
	Trace      []string         `json:"trace,omitempty"`
	Sample     any              `json:"sample,omitempty"`
	Extra      map[string]int64 `json:"extra,omitempty"`
	// filled by the driver
	forced string
	params string
}

type summary struct {
	Kind        string            `json:"kind"`
	Runs        int64             `json:"runs"`
	NonTrivial  int64             `json:"nontrivial"`
	Violations  int64             `json:"violations"`
	Inconcl     int64             `json:"inconclusive"`
	Discarded   int64             `json:"discarded"`
	Steps       int64             `json:"steps"`
	SimNs       int64             `json:"sim_ns"`
	Hashes      []uint64          `json:"hashes"`
	AllHashes   int64             `json:"all_hashes"`
	States      []uint64          `json:"states"`
	Choices     map[string]int64  `json:"choices"`
	NonBoring   map[string]int64  `json:"nonboring"`
	Probes      map[string]int64  `json:"probes"`
	Counters    map[string]int64  `json:"counters"`
	Points      map[string]uint32 `json:"points"`
	Scenarios   map[string]int64  `json:"scenarios"`
	Extra       map[string]int64  `json:"extra"`
	WallS       float64           `json:"wall_s"`
	RaceIgnored int64             `json:"race_reports_without_sut_frame"`
	IndexHash   map[string]uint64 `json:"index_hash"`
}

type replayFile struct {
	Property string           `json:"property"`
	Class    string           `json:"class"`
	Key      string           `json:"key"`
	Message  string           `json:"message"`
	Seed     uint64           `json:"seed"`
	Index    int64            `json:"index"`
	Scenario string           `json:"scenario"`
	Params   map[string]int64 `json:"params,omitempty"`
	Forced   string           `json:"forced_scenario,omitempty"`
	Choices  []uint32         `json:"choices"`
	Hash     uint64           `json:"hash"`
	Trace    []string         `json:"trace,omitempty"`
	Source   string           `json:"src_digest,omitempty"`
	Shrink   string           `json:"minimisation,omitempty"`
}

type knownFinding struct {
	Property string `json:"property"`
	Class    string `json:"class"`
	Key      string `json:"key"`
	Text     string `json:"text"`
}

type knownFile struct {
	Known []knownFinding `json:"known"`
	Fixed []string       `json:"fixed"`
}

func trouble(format string, a ...any) {
	fmt.Printf("HARNESS-TROUBLE: "+format+"\n", a...)
	os.Exit(2)
}

func env() []string {
	e := os.Environ()
	e = append(e, "GOFLAGS=-mod=mod", "GOPROXY=off", "GOSUMDB=off", "GOTOOLCHAIN=local", "CGO_ENABLED=1")
	return e
}

// cmdTimeout bounds every child process: a worker stuck in a real blocking call (something the rewriter
// missed) must end as harness trouble (exit 2), never hang the check or print a VIOLATION.
var cmdTimeout = 45 * time.Minute

func runCmd(dir string, extraEnv []string, name string, args ...string) (string, error) {
	ctx, cancel := context.WithTimeout(context.Background(), cmdTimeout)
	defer cancel()
	cmd := exec.CommandContext(ctx, name, args...)
	cmd.WaitDelay = 5 * time.Second
	cmd.Dir = dir
	cmd.Env = append(env(), extraEnv...)
	var out bytes.Buffer
	cmd.Stdout = &out
	cmd.Stderr = &out
	err := cmd.Run()
	return out.String(), err
}

func buildDir() string { return filepath.Join(root, "build") }

// srcDigest hashes the SUT files the overlay was generated from.
func srcDigest() string {
	h := sha256.New()
	raw, err := os.ReadFile(filepath.Join(buildDir(), "overlay", "overlay.json"))
	if err != nil {
		return ""
	}
	var ov struct{ Replace map[string]string }
	json.Unmarshal(raw, &ov)
	var keys []string
	for k := range ov.Replace {
		keys = append(keys, k)
	}
	sort.Strings(keys)
	for _, k := range keys {
		b, _ := os.ReadFile(k)
		h.Write([]byte(k))
		h.Write(b)
	}
	return hex.EncodeToString(h.Sum(nil))[:16]
}

type pointInfo struct {
	ID   int    `json:"id"`
	File string `json:"file"`
	Line int    `json:"line"`
	Func string `json:"func"`
}

var pointTable []pointInfo

// prepare regenerates the overlay and (re)builds the worker for prop.
func prepare(prop string) (worker string) {
	cfg := propsCfg[prop]
	os.MkdirAll(buildDir(), 0o755)
	simgen := filepath.Join(root, "bin", "simgen")
	if _, err := os.Stat(simgen); err != nil {
		if out, err := runCmd(root, nil, goBin, "build", "-o", simgen, "./simgen"); err != nil {
			trouble("building simgen failed: %v\n%s", err, out)
		}
	}
	if out, err := runCmd(root, nil, simgen, "-lint", filepath.Join(root, "sim")); err != nil {
		trouble("simulator lint failed:\n%s", out)
	}
	os.WriteFile(filepath.Join(buildDir(), "go.mod"), []byte("module build.ignore\n"), 0o644)
	overlay := filepath.Join(buildDir(), "overlay-"+prop)
	if out, err := runCmd(root, nil, simgen, "-repo", "/repo", "-out", overlay); err != nil {
		trouble("rewriting /repo failed (the tree may not compile, or uses a construct the rewriter does not support):\n%s", out)
	}
	raw, err := os.ReadFile(filepath.Join(overlay, "points.json"))
	if err != nil {
		trouble("%v", err)
	}
	json.Unmarshal(raw, &pointTable)
	// the digest function reads build/overlay/overlay.json
	os.RemoveAll(filepath.Join(buildDir(), "overlay"))
	if err := os.Symlink(overlay, filepath.Join(buildDir(), "overlay")); err != nil {
		trouble("%v", err)
	}
	worker = filepath.Join(buildDir(), "worker-"+prop)
	args := []string{"build"}
	if cfg.race {
		// no inlining of SUT functions: race reports then name the SUT function that made the access
		args = append(args, "-race", "-gcflags=github.com/TheManticoreProject/Manticore/...=-l")
	}
	args = append(args, "-overlay", filepath.Join(overlay, "overlay.json"), "-o", worker, "./harness/worker")
	t0 := time.Now()
	if out, err := runCmd(root, nil, goBin, args...); err != nil {
		trouble("building the worker against /repo's working tree failed:\n%s", out)
	}
	fmt.Printf("build: overlay %d points, worker built in %.1fs (race=%v)\n", len(pointTable)-1, time.Since(t0).Seconds(), cfg.race)
	return worker
}

// canary: a sensitivity self-test run by every check. The freshly generated overlay is copied, one
// known property-breaking edit is applied to the *copy* (never to /repo), a second worker is built from
// it and a few thousand runs must report a violation. If the edit's pattern is not in the tree (the tree
// changed there) the canary is skipped; if it applies and nothing is reported the check has lost its
// teeth and ends as harness trouble.
type canarySpec struct {
	after string // the edit is applied to the first occurrence of old after this anchor (the function it is meant for)
	file  string // overlay-relative
	old   string
	new   string
	runs  int64
	what  string
}

var canaries = map[string][]canarySpec{
	"C11": {{after: ") Receive(", file: "network/netbios/nbt/nbt.go", old: "_, err = io.ReadFull(n.conn, buffer)", new: "_, err = n.conn.Read(buffer)", runs: 4000,
		what: "body read with a single Read instead of io.ReadFull"}},
	"C17": {{after: ") QueryName(", file: "network/netbios/nbtns/nbtns.go", old: "n.mu.RLock()", new: "_ = 0", runs: 8000, what: "QueryName without its read lock"},
		{after: ") QueryName(", file: "network/netbios/nbtns/nbtns.go", old: "defer n.mu.RUnlock()", new: "_ = 0", runs: 0}},
	"C18": {{after: ") serve(", file: "network/netbios/nbtns/udp_server.go", old: "copy(data, buf[:n])", new: "data = buf[:n]", runs: 8000, what: "handler goroutines share the receive buffer again"},
		{after: ") serve(", file: "network/netbios/nbtns/server.go", old: "copy(data, buf[:n])", new: "data = buf[:n]", runs: 0}},
}

func runCanary(prop string, seed uint64, nw int) map[string]any {
	specs := canaries[prop]
	if len(specs) == 0 {
		return map[string]any{"status": "none defined"}
	}
	cfg := propsCfg[prop]
	src := filepath.Join(buildDir(), "overlay-"+prop)
	dst := filepath.Join(buildDir(), "overlay-"+prop+"-canary")
	os.RemoveAll(dst)
	if out, err := runCmd(root, nil, "cp", "-r", src, dst); err != nil {
		trouble("canary: %v %s", err, out)
	}
	defer os.RemoveAll(dst)
	raw, _ := os.ReadFile(filepath.Join(dst, "overlay.json"))
	raw = bytes.ReplaceAll(raw, []byte(src+"/"), []byte(dst+"/"))
	os.WriteFile(filepath.Join(dst, "overlay.json"), raw, 0o644)
	var runs int64
	for _, sp := range specs {
		f := filepath.Join(dst, sp.file)
		b, err := os.ReadFile(f)
		at := -1
		if err == nil {
			if i := bytes.Index(b, []byte(sp.after)); i >= 0 {
				if j := bytes.Index(b[i:], []byte(sp.old)); j >= 0 {
					// the edit must stay inside the function the anchor names
					if k := bytes.Index(b[i:], []byte("\nfunc ")); k < 0 || j < k {
						at = i + j
					}
				}
			}
		}
		if at < 0 {
			return map[string]any{"status": "skipped", "reason": "the code the canary edits is not present in this form in this tree: " + sp.old}
		}
		b = append(append(append([]byte(nil), b[:at]...), []byte(sp.new)...), b[at+len(sp.old):]...)
		os.WriteFile(f, b, 0o644)
		if sp.runs > runs {
			runs = sp.runs
		}
	}
	worker := filepath.Join(buildDir(), "worker-"+prop+"-canary")
	defer os.Remove(worker)
	args := []string{"build"}
	if cfg.race {
		args = append(args, "-race", "-gcflags=github.com/TheManticoreProject/Manticore/...=-l")
	}
	args = append(args, "-overlay", filepath.Join(dst, "overlay.json"), "-o", worker, "./harness/worker")
	if out, err := runCmd(root, nil, goBin, args...); err != nil {
		return map[string]any{"status": "skipped", "reason": "the edited copy does not build: " + firstLines(out, 3)}
	}
	per := (runs + int64(nw) - 1) / int64(nw)
	var wg sync.WaitGroup
	var mu sync.Mutex
	found := map[string]int{}
	total := int64(0)
	for f := int64(0); f < runs; f += per {
		wg.Add(1)
		go func(f int64) {
			defer wg.Done()
			wo := spawn(worker, prop, seed, f, f+per, 0, "-budget", "60")
			if wo.err != nil {
				return
			}
			mu.Lock()
			total += wo.sum.Runs
			for _, r := range wo.recs {
				if r.Kind == "violation" {
					found[r.Run.Violation.Class]++
				}
			}
			mu.Unlock()
		}(f)
	}
	wg.Wait()
	if len(found) == 0 {
		// judged by the caller: fatal (exit 2) only if the check itself found nothing either
		fmt.Printf("canary: %q applied to a scratch copy of the overlay -> NOT detected in %d runs\n", specs[0].what, total)
		return map[string]any{"status": "not detected", "edit": specs[0].what, "runs": total}
	}
	fmt.Printf("canary: %q applied to a scratch copy of the overlay -> detected (%v in %d runs)\n", specs[0].what, found, total)
	return map[string]any{"status": "detected", "edit": specs[0].what, "runs": total, "violations_by_class": found}
}

type workerOut struct {
	sum  *summary
	recs []struct {
		Kind string  `json:"kind"`
		Run  *runRec `json:"run"`
	}
	err error
	log string
}

func parseWorkerOut(path string) (*workerOut, error) {
	f, err := os.Open(path)
	if err != nil {
		return nil, err
	}
	defer f.Close()
	wo := &workerOut{}
	sc := bufio.NewScanner(f)
	sc.Buffer(make([]byte, 1<<20), 1<<30)
	for sc.Scan() {
		line := sc.Bytes()
		var probe struct {
			Kind string `json:"kind"`
		}
		if err := json.Unmarshal(line, &probe); err != nil {
			return nil, fmt.Errorf("bad worker output line: %v", err)
		}
		if probe.Kind == "summary" {
			wo.sum = &summary{}
			if err := json.Unmarshal(line, wo.sum); err != nil {
				return nil, err
			}
			continue
		}
		var r struct {
			Kind string  `json:"kind"`
			Run  *runRec `json:"run"`
		}
		if err := json.Unmarshal(line, &r); err != nil {
			return nil, err
		}
		wo.recs = append(wo.recs, r)
	}
	if wo.sum == nil {
		return nil, fmt.Errorf("worker output has no summary (crashed?)")
	}
	return wo, nil
}

var workerSeq int
var workerMu sync.Mutex

// spawn runs one worker process and parses its output.
func spawn(worker, prop string, seed uint64, from, to int64, gomaxprocs int, extra ...string) *workerOut {
	workerMu.Lock()
	workerSeq++
	id := workerSeq
	workerMu.Unlock()
	outPath := filepath.Join(buildDir(), fmt.Sprintf("out-%s-%d.jsonl", prop, id))
	defer os.Remove(outPath)
	args := []string{"-prop", prop, "-seed", strconv.FormatUint(seed, 10), "-from", strconv.FormatInt(from, 10), "-to", strconv.FormatInt(to, 10),
		"-npoints", strconv.Itoa(len(pointTable)), "-out", outPath}
	args = append(args, extra...)
	raceLog := filepath.Join(buildDir(), "race", fmt.Sprintf("%s-%d", prop, id))
	os.MkdirAll(filepath.Dir(raceLog), 0o755)
	ee := []string{"GORACE=log_path=" + raceLog + " halt_on_error=0 exitcode=0 history_size=2", "GOMEMLIMIT=3GiB"}
	if gomaxprocs > 0 {
		ee = append(ee, "GOMAXPROCS="+strconv.Itoa(gomaxprocs))
	}
	out, err := runCmd(root, ee, worker, args...)
	matches, _ := filepath.Glob(raceLog + ".*")
	for _, m := range matches {
		os.Remove(m)
	}
	if err != nil {
		return &workerOut{err: fmt.Errorf("worker %v failed: %v", args, err), log: out}
	}
	wo, perr := parseWorkerOut(outPath)
	if perr != nil {
		return &workerOut{err: perr, log: out}
	}
	return wo
}

// replayOnce runs a replay file in a fresh process and returns the resulting run record.
func replayOnce(worker, prop string, rf *replayFile, verbose bool) (*runRec, error) {
	workerMu.Lock()
	workerSeq++
	id := workerSeq
	workerMu.Unlock()
	inPath := filepath.Join(buildDir(), fmt.Sprintf("cand-%s-%d.json", prop, id))
	raw, _ := json.Marshal(rf)
	if err := os.WriteFile(inPath, raw, 0o644); err != nil {
		return nil, err
	}
	defer os.Remove(inPath)
	return replayPath(worker, prop, inPath, verbose, id)
}

func replayPath(worker, prop, inPath string, verbose bool, id int) (*runRec, error) {
	outPath := filepath.Join(buildDir(), fmt.Sprintf("rep-%s-%d.jsonl", prop, id))
	defer os.Remove(outPath)
	args := []string{"-prop", prop, "-replay", inPath, "-npoints", strconv.Itoa(len(pointTable)), "-out", outPath}
	if verbose {
		args = append(args, "-verbose")
	}
	raceLog := filepath.Join(buildDir(), "race", fmt.Sprintf("%s-r%d", prop, id))
	os.MkdirAll(filepath.Dir(raceLog), 0o755)
	ctx, cancel := context.WithTimeout(context.Background(), 5*time.Minute)
	defer cancel()
	cmd := exec.CommandContext(ctx, worker, args...)
	cmd.WaitDelay = 5 * time.Second
	cmd.Dir = root
	cmd.Env = append(env(), "GORACE=log_path="+raceLog+" halt_on_error=0 exitcode=0 history_size=2", "GOMEMLIMIT=3GiB")
	var ob bytes.Buffer
	cmd.Stdout, cmd.Stderr = &ob, &ob
	err := cmd.Run()
	matches, _ := filepath.Glob(raceLog + ".*")
	for _, m := range matches {
		os.Remove(m)
	}
	if err != nil {
		if ee, ok := err.(*exec.ExitError); !ok || ee.ExitCode() != 1 {
			return nil, fmt.Errorf("replay worker failed: %v\n%s", err, ob.String())
		}
	}
	raw, rerr := os.ReadFile(outPath)
	if rerr != nil {
		return nil, rerr
	}
	var r struct {
		Kind string  `json:"kind"`
		Run  *runRec `json:"run"`
	}
	if err := json.Unmarshal(bytes.TrimSpace(raw), &r); err != nil || r.Run == nil {
		return nil, fmt.Errorf("bad replay output: %v", err)
	}
	return r.Run, nil
}

func same(r *runRec, class, key string) bool {
	return r != nil && r.Violation != nil && r.Violation.Class == class && r.Violation.Key == key
}

// reproduces runs a candidate (several attempts for data races, whose detection depends on TSan's shadow state).
var raceAttempts = 5

func reproduces(worker, prop string, rf *replayFile, class, key string) (*runRec, bool) {
	attempts := 1
	if class == "data_race" {
		attempts = raceAttempts
	}
	for i := 0; i < attempts; i++ {
		r, err := replayOnce(worker, prop, rf, false)
		if err != nil {
			return nil, false
		}
		if same(r, class, key) {
			return r, true
		}
	}
	return nil, false
}

// minimise shrinks the choice stream while the same (class,key) recurs.
func minimise(worker, prop string, rf *replayFile, deadline time.Time, maxTries int) (best *replayFile, tried int) {
	class, key := rf.Class, rf.Key
	cur := *rf
	try := func(ch []uint32) bool {
		if time.Now().After(deadline) || tried >= maxTries {
			return false
		}
		tried++
		c := cur
		c.Choices = ch
		r, ok := reproduces(worker, prop, &c, class, key)
		if ok {
			// adopt the normalised stream the run actually consumed
			if r.Choices != nil && len(r.Choices) <= len(ch) {
				c.Choices = r.Choices
			}
			c.Hash = r.Hash
			cur = c
		}
		return ok
	}
	trim := func(ch []uint32) []uint32 {
		n := len(ch)
		for n > 0 && ch[n-1] == 0 {
			n--
		}
		return ch[:n]
	}
	cur.Choices = trim(cur.Choices)
	// 1. shortest prefix (binary search on the cut; everything after it becomes the boring choice)
	lo, hi := 0, len(cur.Choices)
	for lo < hi && !time.Now().After(deadline) {
		mid := (lo + hi) / 2
		base := append([]uint32(nil), cur.Choices[:mid]...)
		if try(trim(base)) {
			hi = len(cur.Choices)
			if hi > mid {
				hi = mid
			}
		} else {
			lo = mid + 1
		}
	}
	// 2. zero blocks, 3. delete blocks
	for size := len(cur.Choices) / 2; size >= 1 && !time.Now().After(deadline); size /= 2 {
		for start := 0; start < len(cur.Choices); start += size {
			end := start + size
			if end > len(cur.Choices) {
				end = len(cur.Choices)
			}
			allZero := true
			for _, v := range cur.Choices[start:end] {
				if v != 0 {
					allZero = false
				}
			}
			if !allZero {
				c := append([]uint32(nil), cur.Choices...)
				for i := start; i < end && i < len(c); i++ {
					c[i] = 0
				}
				if try(trim(c)) {
					continue
				}
			}
			if size <= 8 && start < len(cur.Choices) {
				c := append([]uint32(nil), cur.Choices[:start]...)
				c = append(c, cur.Choices[end:]...)
				try(trim(c))
			}
		}
	}
	// 4. lower single values
	for i := 0; i < len(cur.Choices) && !time.Now().After(deadline); i++ {
		v := cur.Choices[i]
		for _, nv := range []uint32{1, v / 2, v - 1} {
			if v > 1 && nv < v && nv > 0 {
				c := append([]uint32(nil), cur.Choices...)
				c[i] = nv
				if try(trim(c)) {
					break
				}
			}
		}
	}
	return &cur, tried
}

// shrinkInProcess lets a worker minimise a functional violation inside one process (thousands of candidates per second).
func shrinkInProcess(worker, prop string, rf *replayFile) (*replayFile, int) {
	workerMu.Lock()
	workerSeq++
	id := workerSeq
	workerMu.Unlock()
	inPath := filepath.Join(buildDir(), fmt.Sprintf("shr-%s-%d.json", prop, id))
	outPath := filepath.Join(buildDir(), fmt.Sprintf("shr-%s-%d.out", prop, id))
	raw, _ := json.Marshal(rf)
	os.WriteFile(inPath, raw, 0o644)
	defer os.Remove(inPath)
	defer os.Remove(outPath)
	raceLog := filepath.Join(buildDir(), "race", fmt.Sprintf("%s-s%d", prop, id))
	out, err := runCmd(root, []string{"GORACE=log_path=" + raceLog + " halt_on_error=0 exitcode=0", "GOMEMLIMIT=3GiB"}, worker, "-prop", prop, "-shrink", inPath, "-npoints", strconv.Itoa(len(pointTable)), "-out", outPath)
	matches, _ := filepath.Glob(raceLog + ".*")
	for _, m := range matches {
		os.Remove(m)
	}
	if err != nil {
		fmt.Printf("note: in-process minimisation failed (%v), keeping the original stream\n%s", err, out)
		return rf, 0
	}
	b, _ := os.ReadFile(outPath)
	var r struct {
		Choices []uint32 `json:"choices"`
		Tried   int      `json:"tried"`
	}
	if json.Unmarshal(bytes.TrimSpace(b), &r) != nil {
		return rf, 0
	}
	c := *rf
	c.Choices = r.Choices
	if c.Choices == nil {
		c.Choices = []uint32{}
	}
	return &c, r.Tried
}

func loadKnown() *knownFile {
	kf := &knownFile{}
	raw, err := os.ReadFile(filepath.Join(root, "known_findings.json"))
	if err != nil {
		return kf
	}
	if err := json.Unmarshal(raw, kf); err != nil {
		trouble("known_findings.json: %v", err)
	}
	return kf
}

func (k *knownFile) match(prop, class, key string) *knownFinding {
	for i := range k.Known {
		f := &k.Known[i]
		if f.Property == prop && f.Class == class && f.Key == key {
			return f
		}
	}
	return nil
}

func shortHash(s string) string {
	h := sha256.Sum256([]byte(s))
	return hex.EncodeToString(h[:])[:10]
}

func sanitize(s string) string {
	var b strings.Builder
	for _, r := range s {
		switch {
		case r >= 'a' && r <= 'z', r >= 'A' && r <= 'Z', r >= '0' && r <= '9', r == '-', r == '_':
			b.WriteRune(r)
		default:
			b.WriteByte('_')
		}
	}
	return b.String()
}

func parseParams(p string) map[string]int64 {
	if p == "" {
		return nil
	}
	m := map[string]int64{}
	for _, kv := range strings.Split(p, ",") {
		if i := strings.IndexByte(kv, '='); i > 0 {
			v, _ := strconv.ParseInt(kv[i+1:], 10, 64)
			m[kv[:i]] = v
		}
	}
	return m
}

func main() {
	if len(os.Args) < 3 {
		fmt.Println("usage: verifcheck <C11|C17|C18> <quick|thorough> | verifcheck replay <file>")
		os.Exit(2)
	}
	initProps()
	if os.Args[1] == "replay" {
		os.Exit(doReplay(os.Args[2]))
	}
	prop, tier := os.Args[1], os.Args[2]
	cfg, ok := propsCfg[prop]
	if !ok || (tier != "quick" && tier != "thorough") {
		fmt.Println("usage: verifcheck <C11|C17|C18> <quick|thorough>")
		os.Exit(2)
	}
	seed := uint64(20260927)
	if s := os.Getenv("VERIF_SEED"); s != "" {
		v, err := strconv.ParseUint(s, 10, 64)
		if err != nil {
			iv, err2 := strconv.ParseInt(s, 10, 64)
			if err2 != nil {
				trouble("VERIF_SEED=%q is not an integer", s)
			}
			v = uint64(iv)
		}
		seed = v
	}
	fmt.Printf("seed=%d property=%s tier=%s\n", seed, prop, tier)
	nw := runtime.NumCPU()
	if s := os.Getenv("VERIF_WORKERS"); s != "" {
		if v, err := strconv.Atoi(s); err == nil && v > 0 {
			nw = v
		}
	}
	t0 := time.Now()
	worker := prepare(prop)
	digest := srcDigest()

	runs, budget := cfg.quickRuns, cfg.quickBudget
	if tier == "thorough" {
		runs, budget = cfg.thorRuns, cfg.thorBudget
	}
	if s := os.Getenv("VERIF_RUNS"); s != "" {
		if v, err := strconv.ParseInt(s, 10, 64); err == nil && v > 0 {
			runs = v
		}
	}
	if s := os.Getenv("VERIF_BUDGET_S"); s != "" {
		if v, err := strconv.ParseFloat(s, 64); err == nil && v > 0 {
			budget = v
		}
	}
	// a worker gets its wall budget, then a grace period, then it is killed (exit 2)
	cmdTimeout = time.Duration(budget*1.5)*time.Second + 5*time.Minute

	// ---- determinism self-test: the same indexes in fresh processes at other GOMAXPROCS
	detN := int64(32)
	if tier == "thorough" {
		detN = 512
	}
	if detN > runs {
		detN = runs
	}
	type job struct {
		from, to int64
		gmp      int
		extra    []string
		forced   string
		params   string
	}
	var jobs []job
	enumRuns := map[string]int64{}
	chunk := (runs + int64(nw) - 1) / int64(nw)
	// smaller chunks balance better and bound per-process memory
	for chunk > 4000 {
		chunk = (chunk + 1) / 2
	}
	if chunk < 1 {
		chunk = 1
	}
	for f := int64(0); f < runs; f += chunk {
		t := f + chunk
		if t > runs {
			t = runs
		}
		ex := []string{"-budget", fmt.Sprint(budget)}
		if f < detN {
			ex = append(ex, "-indexhash", strconv.FormatInt(detN, 10))
		}
		jobs = append(jobs, job{from: f, to: t, extra: ex})
	}
	for _, fs := range cfg.scenarios {
		n := fs.runs(tier)
		if fs.enum {
			out, err := runCmd(root, nil, worker, "-prop", prop, "-scenario", fs.name, "-enumsize")
			if err != nil {
				trouble("worker -enumsize failed: %v\n%s", err, out)
			}
			n, _ = strconv.ParseInt(strings.TrimSpace(out), 10, 64)
			enumRuns[fs.name] = n
		}
		per := (n + int64(nw) - 1) / int64(nw)
		if per < 1 {
			per = 1
		}
		for f := int64(0); f < n; f += per {
			t := f + per
			if t > n {
				t = n
			}
			ex := []string{"-scenario", fs.name, "-budget", fmt.Sprint(budget)}
			pp := fs.params
			if tier == "thorough" && fs.thorParams != "" {
				pp = fs.thorParams
			}
			if pp != "" {
				pp += fmt.Sprintf(",rot=%d", seed%1000003)
				ex = append(ex, "-params", pp)
			}
			jobs = append(jobs, job{from: f, to: t, extra: ex, forced: fs.name, params: pp})
		}
	}
	detJobs := []job{
		{from: 0, to: detN, gmp: 1, extra: []string{"-indexhash", strconv.FormatInt(detN, 10)}},
		{from: 0, to: detN, gmp: 4, extra: []string{"-indexhash", strconv.FormatInt(detN, 10)}},
	}
	nMain := len(jobs)
	jobs = append(jobs, detJobs...)

	results := make([]*workerOut, len(jobs))
	var wg sync.WaitGroup
	sem := make(chan struct{}, nw)
	for i, j := range jobs {
		wg.Add(1)
		go func(i int, j job) {
			defer wg.Done()
			sem <- struct{}{}
			defer func() { <-sem }()
			if time.Since(t0).Seconds() > budget && i < nMain && j.forced == "" {
				// the wall budget of the tier is spent: remaining random slices are not started (the evidence
				// reports the runs that were executed, not the runs that were planned)
				results[i] = &workerOut{sum: &summary{}}
				return
			}
			results[i] = spawn(worker, prop, seed, j.from, j.to, j.gmp, j.extra...)
			for _, r := range results[i].recs {
				r.Run.forced, r.Run.params = j.forced, j.params
			}
		}(i, j)
	}
	wg.Wait()
	for i, r := range results {
		if r.err != nil {
			trouble("worker for runs [%d,%d) failed: %v\n%s", jobs[i].from, jobs[i].to, r.err, r.log)
		}
	}
	fanWall := time.Since(t0).Seconds()
	canaryRes := runCanary(prop, seed, nw)

	// determinism comparison
	mainHash := map[string]uint64{}
	for i := 0; i < nMain; i++ {
		if jobs[i].forced != "" {
			continue
		}
		for k, v := range results[i].sum.IndexHash {
			mainHash[k] = v
		}
	}
	detPairs := 0
	for i := nMain; i < len(jobs); i++ {
		for k, v := range results[i].sum.IndexHash {
			if mv, ok := mainHash[k]; ok {
				detPairs++
				if mv != v {
					trouble("determinism self-test failed: run index %s has interleaving signature %x in one process and %x in another (GOMAXPROCS=%d)", k, mv, v, jobs[i].gmp)
				}
			}
		}
	}
	fmt.Printf("determinism: %d run pairs re-executed in fresh processes at GOMAXPROCS 1 and 4: identical\n", detPairs)

	// ---- aggregate
	agg := &summary{Choices: map[string]int64{}, NonBoring: map[string]int64{}, Probes: map[string]int64{}, Counters: map[string]int64{},
		Points: map[string]uint32{}, Scenarios: map[string]int64{}, Extra: map[string]int64{}}
	hashes := map[uint64]struct{}{}
	states := map[uint64]struct{}{}
	var vios []*runRec
	var samples []any
	inconcl := 0
	for i := 0; i < nMain; i++ {
		s := results[i].sum
		agg.Runs += s.Runs
		agg.NonTrivial += s.NonTrivial
		agg.Steps += s.Steps
		agg.SimNs += s.SimNs
		agg.Discarded += s.Discarded
		agg.RaceIgnored += s.RaceIgnored
		for _, h := range s.Hashes {
			hashes[h] = struct{}{}
		}
		for _, h := range s.States {
			states[h] = struct{}{}
		}
		for k, v := range s.Choices {
			agg.Choices[k] += v
		}
		for k, v := range s.NonBoring {
			agg.NonBoring[k] += v
		}
		for k, v := range s.Probes {
			agg.Probes[k] += v
		}
		for k, v := range s.Counters {
			agg.Counters[k] += v
		}
		for k, v := range s.Points {
			agg.Points[k] += v
		}
		for k, v := range s.Scenarios {
			agg.Scenarios[k] += v
		}
		for k, v := range s.Extra {
			agg.Extra[k] += v
		}
		for _, r := range results[i].recs {
			switch r.Kind {
			case "violation":
				vios = append(vios, r.Run)
			case "inconclusive":
				inconcl++
			case "sample":
				if len(samples) < 4 {
					samples = append(samples, map[string]any{"scenario": r.Run.Scenario, "run_index": r.Run.Index, "seed": r.Run.Seed,
						"interleaving_signature": fmt.Sprintf("%016x", r.Run.Hash), "steps": r.Run.Steps, "sim_time_ns": r.Run.SimNs,
						"choices_drawn": len(r.Run.Choices), "case": r.Run.Sample})
				}
			}
		}
	}
	if inconcl > 0 {
		trouble("%d runs were inconclusive (linearizability checker timed out)", inconcl)
	}

	// ---- violations: group, confirm, minimise, report
	known := loadKnown()
	type group struct {
		class, key string
		first      *runRec
		count      int
	}
	groups := map[string]*group{}
	var order []string
	for _, v := range vios {
		k := v.Violation.Class + "\x00" + v.Violation.Key
		g, ok := groups[k]
		if !ok {
			g = &group{class: v.Violation.Class, key: v.Violation.Key, first: v}
			groups[k] = g
			order = append(order, k)
		}
		g.count++
		if len(v.Choices) < len(g.first.Choices) {
			g.first = v
		}
	}
	sort.Slice(order, func(i, j int) bool {
		if groups[order[i]].count != groups[order[j]].count {
			return groups[order[i]].count > groups[order[j]].count
		}
		return order[i] < order[j]
	})
	exit := 0
	var unconfirmed []string
	knownSeen := 0
	var vioList []map[string]any
	os.MkdirAll(filepath.Join(root, "replays"), 0o755)
	reported := 0
	for _, k := range order {
		g := groups[k]
		if kf := known.match(prop, g.class, g.key); kf != nil {
			fmt.Printf("KNOWN-FINDING: property=%s %s %s — %s (seen in %d runs)\n", prop, g.class, g.key, kf.Text, g.count)
			knownSeen++
			continue
		}
		if reported >= 3 {
			fmt.Printf("note: further violation group %s/%s (%d runs) not minimised (cap)\n", g.class, g.key, g.count)
			exit = 1
			continue
		}
		reported++
		rf := &replayFile{Property: prop, Class: g.class, Key: g.key, Message: g.first.Violation.Msg, Seed: g.first.Seed, Index: g.first.Index,
			Scenario: g.first.Scenario, Forced: g.first.forced, Params: parseParams(g.first.params), Choices: g.first.Choices, Hash: g.first.Hash, Source: digest}
		// confirm in a fresh process
		r, ok := reproduces(worker, prop, rf, g.class, g.key)
		if !ok && g.class == "data_race" {
			// TSan's report depends on shadow-memory state; try other runs of the group
			others := 0
			for _, v := range vios {
				if others >= 6 {
					break
				}
				if v.Violation.Class == g.class && v.Violation.Key == g.key && v != g.first {
					others++
					rf2 := *rf
					rf2.Seed, rf2.Index, rf2.Choices, rf2.Hash, rf2.Scenario, rf2.Forced, rf2.Params = v.Seed, v.Index, v.Choices, v.Hash, v.Scenario, v.forced, parseParams(v.params)
					if r, ok = reproduces(worker, prop, &rf2, g.class, g.key); ok {
						rf = &rf2
						break
					}
				}
			}
		}
		if !ok && g.class == "data_race" {
			// The race detector's verdict depends on its shadow-memory state (and on sync.Pool's randomised edges
			// inside fmt): a report that cannot be reproduced from its recorded schedule in fresh processes is not
			// printed as a VIOLATION (its replay file would not replay). It is listed; if nothing else is found the
			// check ends as harness trouble, never as "held".
			fmt.Printf("note: race report %s (seen in %d runs) did not recur when its recorded schedule was re-executed in fresh processes; not reported as a violation\n", g.key, g.count)
			unconfirmed = append(unconfirmed, g.key)
			reported--
			continue
		}
		if !ok {
			trouble("violation %s/%s of run %d did not reproduce from its recorded choices in a fresh process (nondeterminism in the harness?)\n%s", g.class, g.key, g.first.Index, g.first.Violation.Msg)
		}
		rf.Hash = r.Hash
		origLen := len(rf.Choices)
		var best *replayFile
		var tried int
		if g.class == "data_race" {
			raceAttempts = 2
			best, tried = minimise(worker, prop, rf, time.Now().Add(45*time.Second), 40)
			raceAttempts = 5
		} else {
			best, tried = shrinkInProcess(worker, prop, rf)
		}
		// final replay: verbose trace, and it must reproduce
		fr, err := replayOnce(worker, prop, best, true)
		if err != nil || !same(fr, g.class, g.key) {
			if g.class != "data_race" {
				// the verbose run perturbs nothing for functional classes
				trouble("minimised replay of %s/%s did not reproduce: %v", g.class, g.key, err)
			}
			fr, _ = replayOnce(worker, prop, best, false)
		}
		if fr != nil {
			best.Hash = fr.Hash
			best.Trace = fr.Trace
			if fr.Violation != nil {
				best.Message = fr.Violation.Msg
			}
			best.Scenario = fr.Scenario
		}
		best.Shrink = fmt.Sprintf("choice stream %d -> %d entries in %d candidate executions", origLen, len(best.Choices), tried)
		name := fmt.Sprintf("%s-%s-%s.json", prop, sanitize(g.class), shortHash(g.class+g.key))
		path := filepath.Join(root, "replays", name)
		raw, _ := json.MarshalIndent(best, "", " ")
		if err := os.WriteFile(path, raw, 0o644); err != nil {
			trouble("%v", err)
		}
		fmt.Printf("violation: class=%s key=%s runs=%d first_index=%d\n%s\n", g.class, g.key, g.count, g.first.Index, indent(firstLines(best.Message, 30)))
		fmt.Printf("VIOLATION property=%s replay=%s\n", prop, path)
		vioList = append(vioList, map[string]any{"class": g.class, "key": g.key, "runs": g.count, "replay": path})
		exit = 1
	}

	// ---- evidence
	wall := time.Since(t0).Seconds()
	pointsReached := map[string][2]int{}
	for _, p := range pointTable[1:] {
		e := pointsReached[p.File]
		e[1]++
		if agg.Points[strconv.Itoa(p.ID)] > 0 {
			e[0]++
		}
		pointsReached[p.File] = e
	}
	pr := map[string]string{}
	for f, e := range pointsReached {
		if e[0] > 0 {
			pr[f] = fmt.Sprintf("%d/%d", e[0], e[1])
		}
	}
	faults := map[string]int64{}
	for _, k := range []string{"drop", "dup", "delay", "seg", "coalesce", "timeskip", "stall", "fault"} {
		if agg.NonBoring[k] > 0 {
			faults[k] = agg.NonBoring[k]
		}
	}
	// faults that are not plain choice kinds: counted where they actually fired
	if n := agg.Counters["clock_jumps"]; n > 0 {
		faults["clock_jumps_and_idle_time_advances"] = n
	}
	for name, n := range agg.Probes {
		for _, pre := range []string{"cut_", "stop_", "close_", "local_close", "tcp_client_aborted", "stream_reset", "stream_fin", "dgram_", "query_context_cancelled", "keep_alive", "window_full", "short_read", "ill_formed_", "peer_sets_reserved", "peer_paused", "refused_two_record", "start_stop_cycle"} {
			if strings.HasPrefix(name, pre) && n > 0 {
				faults[name] = n
			}
		}
	}
	if len(samples) == 0 {
		samples = append(samples, "no non-trivial sample run was emitted")
	}
	ev := map[string]any{
		"property_id": prop,
		"tier":        tier,
		"seed":        seed,
		"level":       cfg.level,
		"wall_s":      wall,
		"violations":  len(vioList),
		"assumptions": cfg.assumptions,
		"coverage": map[string]any{
			"evaluations":                            agg.Runs,
			"distinct_nontrivial":                    len(hashes),
			"rule":                                   cfg.rule,
			"samples":                                samples,
			"exhaustive":                             false,
			"nontrivial_runs":                        agg.NonTrivial,
			"runs_per_hour":                          int64(float64(agg.Runs) / fanWall * 3600),
			"sim_time_total_s":                       float64(agg.SimNs) / 1e9,
			"steps_total":                            agg.Steps,
			"choices_drawn":                          agg.Choices,
			"choices_non_boring":                     agg.NonBoring,
			"faults_fired":                           faults,
			"scheduler":                              agg.Counters,
			"rare_probes":                            agg.Probes,
			"points_reached_per_file":                pr,
			"scenarios":                              agg.Scenarios,
			"extra":                                  agg.Extra,
			"distinct_model_states":                  len(states),
			"determinism_pairs_checked":              detPairs,
			"components":                             cfg.components,
			"known_findings_seen":                    knownSeen,
			"violations":                             vioList,
			"race_reports_without_sut_frame_ignored": agg.RaceIgnored,
			"src_digest":                             digest,
			"exhaustive_enumerations":                enumRuns,
			"sensitivity_canary":                     canaryRes,
			"workers":                                nw,
		},
	}
	os.MkdirAll(filepath.Join(root, "evidence"), 0o755)
	raw, _ := json.MarshalIndent(ev, "", " ")
	if err := os.WriteFile(filepath.Join(root, "evidence", prop+".json"), raw, 0o644); err != nil {
		trouble("%v", err)
	}
	if exit == 0 && canaryRes["status"] == "not detected" {
		fmt.Printf("HARNESS-TROUBLE: sensitivity canary failed and the check found nothing: the machinery may have lost its teeth on this tree\n")
		exit = 2
	}
	if exit == 0 && len(unconfirmed) > 0 {
		fmt.Printf("HARNESS-TROUBLE: %d race report(s) could not be confirmed by replay and nothing else was found: %v\n", len(unconfirmed), unconfirmed)
		exit = 2
	}
	fmt.Printf("RESULT property=%s runs=%d nontrivial=%d distinct=%d violations=%d known=%d wall=%.1fs exit=%d\n", prop, agg.Runs, agg.NonTrivial, len(hashes), len(vioList), knownSeen, wall, exit)
	os.Exit(exit)
}

func firstLines(s string, n int) string {
	lines := strings.Split(s, "\n")
	if len(lines) > n {
		lines = append(lines[:n], "...")
	}
	return strings.Join(lines, "\n")
}

func indent(s string) string {
	return "    " + strings.ReplaceAll(s, "\n", "\n    ")
}

func doReplay(path string) int {
	raw, err := os.ReadFile(path)
	if err != nil {
		trouble("%v", err)
	}
	var rf replayFile
	if err := json.Unmarshal(raw, &rf); err != nil {
		trouble("replay file: %v", err)
	}
	if _, ok := propsCfg[rf.Property]; !ok {
		trouble("replay file names unknown property %q", rf.Property)
	}
	worker := prepare(rf.Property)
	fmt.Printf("seed=%d property=%s replay=%s\n", rf.Seed, rf.Property, path)
	attempts := 1
	if rf.Class == "data_race" {
		attempts = 3
	}
	var last *runRec
	for i := 0; i < attempts; i++ {
		r, err := replayOnce(worker, rf.Property, &rf, rf.Class != "data_race")
		if err != nil {
			trouble("%v", err)
		}
		last = r
		if same(r, rf.Class, rf.Key) {
			for _, l := range r.Trace {
				fmt.Println("  " + l)
			}
			fmt.Printf("reproduced: class=%s key=%s signature=%016x (recorded %016x)\n%s\n", rf.Class, rf.Key, r.Hash, rf.Hash, indent(firstLines(r.Violation.Msg, 40)))
			if rf.Class != "data_race" && rf.Hash != 0 && r.Hash != rf.Hash {
				trouble("replay diverged: interleaving signature %016x differs from the recorded %016x", r.Hash, rf.Hash)
			}
			fmt.Printf("VIOLATION property=%s replay=%s\n", rf.Property, path)
			return 1
		}
	}
	if last != nil && last.Violation != nil {
		fmt.Printf("replay produced a different violation: class=%s key=%s\n", last.Violation.Class, last.Violation.Key)
		fmt.Printf("VIOLATION property=%s replay=%s\n", rf.Property, path)
		return 1
	}
	fmt.Printf("not reproduced on the current tree (src digest now %s, recorded %s)\n", srcDigest(), rf.Source)
	return 0
}
