package main

var commonComponents = map[string]string{
	"nbt, nbtns, llmnr, logger package logic and every Manticore codec they call": "real (compiled from /repo's working tree; only imports, go, select, channel operations and map ranges are mechanically rewritten by simgen)",
	"io.ReadFull, encoding/binary, fmt, context":                                  "real",
	"kernel sockets (TCP, UDP, multicast)":                                        "stub: sim/net",
	"wall clock, timers, deadlines":                                               "stub: sim/time + discrete-event heap",
	"Go scheduler's choice of goroutine, select choice, map iteration order":      "replaced by the seeded choice stream (sim/rt)",
	"sync.Mutex/RWMutex/WaitGroup/Once/Cond/Map":                                  "stub with identical blocking semantics and race-detector edges (sim/sync)",
	"math/rand, log": "stub",
}

func initProps() {
	initC11()
	initC18()
	propsCfg["C17"] = &propCfg{
		race:        true,
		level:       "exploration",
		quickRuns:   48000,
		thorRuns:    10000000,
		quickBudget: 120,
		thorBudget:  1500,
		components:  withExtra(commonComponents, "clients, clock, sweeper", "harness tasks calling the real NetBIOSNameServer API"),
		assumptions: []string{
			"the reference model (harness/c17/model.go) is written from the property statement; where the statement is silent it accepts every listed outcome (DESIGN.md A.5)",
			"seeded sampling of schedules and histories: a clean batch is evidence, not proof",
			"race detection relies on the Go race detector seeing the SUT's own synchronisation only (simulator hand-over is hidden from it)",
		},
		rule: "each run: 1-4 client tasks x 1-12 generated table operations + 0-4 clock jumps under a seeded schedule with preemption points before every SUT statement; " +
			"history checked for linearizability (porcupine) against the nondeterministic name-table model, query results checked for isolation, TSan for races. " +
			"non-trivial = at least 3 operations, or two clients with overlapping operation windows, or a clock jump; distinct = distinct interleaving signature " +
			"(hash of every choice, context switch and delivered event of the run) among non-trivial runs",
		scenarios: []fixedScenario{
			{name: "pairenum", params: "prefix=1,shards=64", thorParams: "prefix=2,shards=64", runs: func(tier string) int64 {
				if tier == "thorough" {
					return 64
				}
				return 16
			}},
			{name: "bulkenum", enum: true, runs: func(tier string) int64 { return 0 }},
			{name: "ttlenum", params: "depth=4,shards=16", thorParams: "depth=5,shards=64", runs: func(tier string) int64 {
				if tier == "thorough" {
					return 64
				}
				return 16
			}},
			{name: "seqenum", params: "depth=3,shards=16", thorParams: "depth=5,shards=64", runs: func(tier string) int64 {
				if tier == "thorough" {
					return 64
				}
				return 16
			}},
		},
	}
}

func initC11() {
	propsCfg["C11"] = &propCfg{
		race:        false,
		level:       "fault_enumeration",
		quickRuns:   24000,
		thorRuns:    3000000,
		quickBudget: 150,
		thorBudget:  1500,
		components:  withExtra(commonComponents, "scripted NBT peer", "harness code with an independent RFC 1002 section 4.3.1 framer/deframer (never the library's own)"),
		assumptions: []string{
			"the simulated stream follows the documented net.Conn contract (short reads, io.EOF after FIN once drained, reset error after RST, ErrClosed on local close, partial write + error); kernel specifics are not modelled",
			"every payload length 0..131071 and the 16 lengths after it is sent once through a pair of real transports under a seeded segmentation (lenenum); the cut enumeration is exhaustive only for the 40 listed small frame sequences (wire size <= 96 bytes): every byte offset x {FIN, RST, local close} x {whole, byte-by-byte, seeded} segmentation x {peer->SUT, SUT->SUT}; for 6 sequences of large frames (64 KiB boundaries) the cut is enumerated over the offsets around every header, just inside both ends and the middle of every body and the end of the stream; other cuts in large frames are sampled",
			"no race-detector build for C11 (its tasks share nothing but the transport under test)",
		},
		rule: "each run: one real NBTTransport (via smb_v10/transport.NewTransport) or a pair of them over a simulated TCP stream; 1-6 frames with lengths biased to 0,1..5,0xFFFF,0x10000,0x10001,0x1FFFE,0x1FFFF,0x20000.. and random up to 200000; " +
			"per-Write segmentation, per-segment delay, read coalescing, window 7..1MiB, cut (FIN/RST/local close) at a byte offset biased to header bytes and frame boundaries, all from the choice stream; " +
			"oracles: wire bytes vs an independent RFC 1002 framer, refusal of >0x1FFFF, i-th successful Receive == i-th payload, no success beyond the completely delivered frames, error after the cut and forever after, no blocked Receive once everything is delivered. " +
			"non-trivial = every run (each moves at least one frame or exercises a cut); distinct = distinct interleaving signature",
		scenarios: []fixedScenario{
			{name: "cutenum", enum: true, runs: func(tier string) int64 { return 0 }},
			{name: "lenenum", enum: true, runs: func(tier string) int64 { return 0 }},
		},
	}
}

func initC18() {
	propsCfg["C18"] = &propCfg{
		race:        true,
		level:       "exploration",
		quickRuns:   40000,
		thorRuns:    5000000,
		quickBudget: 150,
		thorBudget:  1500,
		components: withExtra(withExtra(commonComponents, "NBNS / LLMNR raw clients, LLMNR responders, NBNS challenged node", "harness tasks on simulated hosts (LLMNR: independent minimal RFC 1035 codec; NBNS requests built with the library's own Marshal, responses read by an independent tolerant reader)"),
			"expected NBNS answers", "obtained differentially: the same request bytes answered by the same, quiescent server before any concurrency or fault"),
		assumptions: []string{
			"simulated sockets follow the documented net contracts (deadline errors, ErrClosed on close-while-blocked, datagram truncation, UDP drop/dup/reorder, stream FIN/RST); kernel specifics (ICMP errors, SO_REUSEADDR) are not modelled",
			"'promptly' is taken as: Stop/Close returns and every SUT goroutine has exited within 3 s (NBNS) / 2 s (LLMNR) of simulated time, measured from the call and judged only over time that passed with every task blocked (the pinned tree needs 0 s; a bounded drain of handlers fits; waiting out a 5 s or 30 s I/O timeout does not)",
			"ill-formed NBNS datagrams (question count larger than the content, runts shorter than a header, requests cut inside the question) are injected only as a disturbance between well-formed requests; how the server treats them is not judged (decoder totality is C07), only that they leave nothing behind",
			"seeded sampling of schedules, fault sequences and stop times; the 16-opcode routing table is enumerated exhaustively (3 transports x 16 opcodes x 2 record dialects x request / response bit); Stop/Close is additionally placed at every statement boundary (k = 0..899) of 6 systems with 1 or 2 requests in flight under the otherwise boring schedule (stopenum), and at k < 80 with the stopping task itself descheduled after j <= 14 of its own statements (stopenum2)",
		},
		rule: "each run: one system (nbtns.Server | nbtns.UDPServer+TCPServer | llmnr.Server | llmnr.Client vs harness responders | llmnr.Client+Server | nbtns.NameChallenger) started through its real constructors on simulated hosts; " +
			"1-6 concurrent clients x 1-5 requests with unique ids and names (UDP, pipelined TCP with aborts and slow readers, multicast), UDP drop/duplicate/delay/reorder, TCP segmentation, stalled tasks (time skips), preemption before every SUT statement, Stop/Close at a chosen time (also at time 0 and twice). " +
			"oracles: every response is byte-identical (modulo id) to the quiescent server's answer for the one request whose id it carries and reaches that client only; LLMNR client returns the message with the id it sent, or timeout/cancel; handler-chain short-circuit; Stop/Close returns, Serve returns, no SUT task left; race detector. " +
			"non-trivial = the run completed its workload (not discarded); distinct = distinct interleaving signature",
		scenarios: []fixedScenario{
			{name: "openum", enum: true, runs: func(tier string) int64 { return 0 }},
			{name: "stopenum", enum: true, runs: func(tier string) int64 { return 0 }},
			{name: "stopenum2", enum: true, runs: func(tier string) int64 { return 0 }},
			{name: "reqpair", enum: true, runs: func(tier string) int64 { return 0 }},
		},
	}
}

func withExtra(m map[string]string, k, v string) map[string]string {
	out := map[string]string{}
	for a, b := range m {
		out[a] = b
	}
	out[k] = v
	return out
}
