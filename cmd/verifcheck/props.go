package main

var commonComponents = map[string]string{
	"nbt, nbtns, llmnr, logger package logic and every Manticore codec they call": "real (compiled from /repo's working tree; only imports, go, select, channel operations and map ranges are mechanically rewritten by simgen)",
	"io.ReadFull, encoding/binary, fmt, context":                                  "real",
	"kernel sockets (TCP, UDP, multicast)":                                        "stub: sim/net",
	"wall clock, timers, deadlines":                                               "stub: sim/time + discrete-event heap",
	"Go scheduler's choice of goroutine, select choice, map iteration order":      "replaced by the seeded choice stream (sim/rt)",
	"sync.Mutex/RWMutex/WaitGroup/Once/Cond/Map":                                  "stub with identical blocking semantics and race-detector edges (sim/sync)",
	"math/rand, log": "stub",
}

func initProps() {
	propsCfg["C17"] = &propCfg{
		race:        true,
		level:       "exploration",
		quickRuns:   48000,
		thorRuns:    4000000,
		quickBudget: 120,
		thorBudget:  1500,
		components:  withExtra(commonComponents, "clients, clock, sweeper", "harness tasks calling the real NetBIOSNameServer API"),
		assumptions: []string{
			"the reference model (harness/c17/model.go) is written from the property statement; where the statement is silent it accepts every listed outcome (DESIGN.md A.5)",
			"seeded sampling of schedules and histories: a clean batch is evidence, not proof",
			"race detection relies on the Go race detector seeing the SUT's own synchronisation only (simulator hand-over is hidden from it)",
		},
		rule: "each run: 1-4 client tasks x 1-12 generated table operations + 0-4 clock jumps under a seeded schedule with preemption points before every SUT statement; " +
			"history checked for linearizability (porcupine) against the nondeterministic name-table model, query results checked for isolation, TSan for races. " +
			"non-trivial = at least 3 operations, or two clients with overlapping operation windows, or a clock jump; distinct = distinct interleaving signature " +
			"(hash of every choice, context switch and delivered event of the run) among non-trivial runs",
		scenarios: []fixedScenario{
			{name: "seqenum", params: "depth=3,shards=16", thorParams: "depth=5,shards=64", runs: func(tier string) int64 {
				if tier == "thorough" {
					return 64
				}
				return 16
			}},
		},
	}
}

func withExtra(m map[string]string, k, v string) map[string]string {
	out := map[string]string{}
	for a, b := range m {
		out[a] = b
	}
	out[k] = v
	return out
}
