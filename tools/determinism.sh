#!/bin/bash
# determinism.sh <C11|C17|C18> [nruns=300] : the large determinism protocol — 30 fresh worker processes execute the
# same run indexes at GOMAXPROCS 1, 4 and 16; every per-run interleaving signature must be identical in all of them.
prop=$1; n=${2:-300}
cd /verif || exit 2
w=build/worker-$prop
[ -x $w ] || { echo "run ./check $prop quick first (builds $w)"; exit 2; }
np=$(python3 -c "import json;print(len(json.load(open('build/overlay-$prop/points.json'))))")
mkdir -p build/det; rm -f build/det/$prop-*.json
for i in $(seq 1 30); do
  g=$(( (i % 3 == 0) ? 1 : (i % 3 == 1) ? 4 : 16 ))
  ( GOMAXPROCS=$g GORACE="log_path=/verif/build/race/det-$prop-$i halt_on_error=0 exitcode=0" timeout 900 $w -prop $prop -from 0 -to $n -npoints $np -indexhash $n -out build/det/$prop-$i.out && jq -c 'select(.kind=="summary") | .index_hash' build/det/$prop-$i.out > build/det/$prop-$i.json ) &
  if (( i % 10 == 0 )); then wait; fi
done; wait
python3 - "$prop" <<'PY'
import json,glob,sys
prop=sys.argv[1]
fs=sorted(glob.glob('/verif/build/det/%s-*.json'%prop))
ref=json.load(open(fs[0])); bad=0
for f in fs[1:]:
    d=json.load(open(f))
    for k,v in ref.items():
        if d.get(k)!=v: bad+=1; print("MISMATCH",f,k,v,d.get(k))
print("%s: %d processes x %d runs compared, mismatches=%d"%(prop,len(fs),len(ref),bad))
sys.exit(1 if bad or len(fs)<30 else 0)
PY
rc=$?
find /verif/build/race -name "det-$prop-*" -delete; rm -f build/det/$prop-*.out
exit $rc
