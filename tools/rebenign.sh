#!/bin/bash
# rebenign.sh [id...] : re-run the current quick check against the kept property-preserving changes (negative
# controls) and refresh meta.json "check". Every one of them must leave the check silent (exit 0).
# The checks run from a snapshot of /verif (outside /repo and /verif, removed at the end), so that /verif can be edited
# meanwhile; results go to /verif/benign/<id>/meta.json.
SNAP=$(mktemp -d /tmp/verif-snap.XXXXXX)
rsync -a --exclude build --exclude .git --exclude replays /verif/ $SNAP/ && mkdir -p $SNAP/replays
trap 'rm -rf $SNAP' EXIT
cd /verif
ids="$@"; [ -z "$ids" ] && ids=$(ls benign)
for id in $ids; do
  d=benign/$id; [ -f $d/meta.json ] || continue
  prop=$(python3 -c "import json;print(json.load(open('$d/meta.json'))['property'])")
  git -C /repo apply /verif/$d/patch.diff || { echo "$id: patch does not apply"; continue; }
  $SNAP/check $prop quick > /tmp/rebenign-$id.out 2>&1; rc=$?
  git -C /repo apply -R /verif/$d/patch.diff 2>/dev/null; git -C /repo checkout -- .; git -C /repo clean -fdq
  classes=$(grep -E "^violation:" /tmp/rebenign-$id.out | sed -E 's/violation: class=([^ ]+) key=(.*) runs=([0-9]+).*/\1{\2} x\3/' | paste -sd';')
  trouble=$(grep -E "TROUBLE" /tmp/rebenign-$id.out | head -2 | cut -c1-300)
  python3 - "$d" "$prop" "$rc" "$classes" "$trouble" <<'PY'
import json,sys
d,prop,rc,classes,trouble=sys.argv[1:6]
m=json.load(open(d+'/meta.json'))
m['check']={"command":"/verif/check %s quick"%prop,"exit":int(rc),"silent":int(rc)==0,"violations":classes,"trouble":trouble}
json.dump(m,open(d+'/meta.json','w'),indent=1)
print("%-20s %s silent=%s %s %s"%(d.split('/')[-1],prop,int(rc)==0,classes[:150],trouble[:150]))
PY
done
