#!/bin/bash
# seedcheck.sh <id> <property> <srcdir> <demo-target-dir-in-repo> [demo-run-args...]
#   srcdir holds patch.diff, a demonstration (demo_test.go or *.go) and meta.txt from an independent author.
# 1. confirms in a scratch worktree (outside /repo and /verif, removed afterwards) that the patched tree builds,
#    passes the existing test suite, and that the demonstration fails with the patch and passes without;
# 2. applies the patch to /repo, runs the property's quick check, undoes the patch straight away;
# 3. stores everything under /verif/seeded/<id>/ (patch.diff, demonstration, meta.json).
unset GOPROXY GOSUMDB GOTOOLCHAIN; export GOFLAGS=-mod=mod
id=$1; prop=$2; src=$3; demodir=$4; shift 4
demoargs=("$@")
[ ${#demoargs[@]} -eq 0 ] && demoargs=(-run . )
out=/verif/seeded/$id
mkdir -p $out
cp $src/patch.diff $out/patch.diff
cp $src/demo_test.go $out/ 2>/dev/null || cp $src/*.go $out/ 2>/dev/null
cp $src/meta.txt $out/author_notes.txt 2>/dev/null
wt=/tmp/seedwt-$id
git -C /repo worktree remove --force $wt 2>/dev/null; rm -rf $wt
git -C /repo worktree add -q $wt HEAD || exit 2
cleanup() { git -C /repo worktree remove --force $wt 2>/dev/null; rm -rf $wt; }
trap cleanup EXIT
cd $wt
git apply $out/patch.diff || { echo "PATCH DOES NOT APPLY"; exit 3; }
build=ok; go build ./... >/tmp/seed-$id.build 2>&1 || build=FAIL
tests=ok; go test -vet=off -count=1 ./... >/tmp/seed-$id.tests 2>&1 || tests=FAIL
for f in $out/*_test.go; do [ -f "$f" ] && cp $f $wt/$demodir/; done
demo_with=pass; timeout 600 go test -vet=off -count=1 "${demoargs[@]}" ./$demodir/ >/tmp/seed-$id.demo1 2>&1 || demo_with=fail
git apply -R $out/patch.diff 2>/dev/null; git checkout -q -- .
demo_without=pass; timeout 600 go test -vet=off -count=1 "${demoargs[@]}" ./$demodir/ >/tmp/seed-$id.demo0 2>&1 || demo_without=fail
cd /verif
echo "seed $id: build=$build existing_tests=$tests demo_with_patch=$demo_with demo_without_patch=$demo_without"
git -C /repo apply $out/patch.diff || { echo "cannot apply to /repo"; exit 3; }
t0=$(date +%s)
/verif/check $prop quick > /tmp/seed-$id.check 2>&1; rc=$?
git -C /repo apply -R $out/patch.diff 2>/dev/null; git -C /repo checkout -- .; git -C /repo clean -fdq
t1=$(date +%s)
grep -E "^violation:|^VIOLATION|^RESULT|TROUBLE|KNOWN" /tmp/seed-$id.check
classes=$(grep -E "^violation:" /tmp/seed-$id.check | sed -E 's/violation: class=([^ ]+) key=(.*) runs=([0-9]+).*/\1{\2} x\3/' | paste -sd';')
python3 - "$id" "$prop" "$build" "$tests" "$demo_with" "$demo_without" "$rc" "$classes" "$((t1-t0))" "$demodir" "${demoargs[*]}" <<'PY'
import json,sys,os
id,prop,build,tests,dw,dwo,rc,classes,secs,demodir,demoargs=sys.argv[1:12]
out='/verif/seeded/%s'%id
notes=open(out+'/author_notes.txt').read() if os.path.exists(out+'/author_notes.txt') else ''
meta={"id":id,"breaks_property":prop,"author":"independent sub-agent given only the property text and a scratch worktree",
 "author_notes":notes,
 "confirmed":{"patched_tree_builds":build=="ok","existing_test_suite_passes_with_patch":tests=="ok",
   "demonstration_with_patch":dw,"demonstration_without_patch":dwo,
   "demonstration_command":"copy *_test.go into %s ; go test -vet=off -count=1 %s ./%s/"%(demodir,demoargs,demodir)},
 "check":{"command":"/verif/check %s quick (patch applied to /repo, undone afterwards)"%prop,"exit":int(rc),
   "caught":int(rc)==1,"violations":classes,"wall_s":int(secs)}}
json.dump(meta,open(out+'/meta.json','w'),indent=1)
print("  -> caught=%s %s"%(int(rc)==1,classes))
PY
rm -f /verif/replays/*.json
