#!/usr/bin/env python3
"""Regenerates the seeded-change table (DESIGN §11) and the negative-control table (§12) from the meta.json files."""
import json, os, re
root = os.path.dirname(os.path.dirname(os.path.abspath(__file__)))
p = os.path.join(root, 'DESIGN.md')
s = open(p).read()

def first_line(notes):
    for l in notes.splitlines():
        l = l.strip()
        if l:
            return l[:150].replace('|', '\\|')
    return ''

rows = ['| seeded change (`/verif/seeded/<id>/`) | property | caught by `check <P> quick` | first violation groups (class{key} × runs) |', '|---|---|---|---|']
n = caught = 0
for d in sorted(os.listdir(os.path.join(root, 'seeded'))):
    f = os.path.join(root, 'seeded', d, 'meta.json')
    if not os.path.exists(f):
        continue
    m = json.load(open(f))
    c = m.get('check', {})
    n += 1
    caught += 1 if c.get('caught') else 0
    v = ';'.join((c.get('violations') or '').split(';')[:2]).replace('|', '\\|') or '—'
    rows.append('| `%s` | %s | %s | %s |' % (d, m.get('breaks_property'), 'yes' if c.get('caught') else '**no**', v))
seeded = '\n'.join(rows)

rows = ['| change (`/verif/benign/<id>/`) | property | quick check | first line of the author\'s note |', '|---|---|---|---|']
nb = silent = 0
for d in sorted(os.listdir(os.path.join(root, 'benign'))):
    f = os.path.join(root, 'benign', d, 'meta.json')
    if not os.path.exists(f):
        continue
    m = json.load(open(f))
    c = m.get('check', {})
    nb += 1
    silent += 1 if c.get('silent') else 0
    rows.append('| `%s` | %s | %s | %s |' % (d, m.get('property'), 'silent (exit 0)' if c.get('silent') else '**exit %s** %s' % (c.get('exit'), c.get('violations') or c.get('trouble', '')[:80]), first_line(m.get('author_notes', ''))))
benign = '\n'.join(rows)

def repl(s, head, table):
    # the table starts at the line beginning with `head` and runs to the first blank line
    i = s.index(head)
    j = s.index('\n\n', i)
    return s[:i] + table + s[j:]

s = repl(s, '| seeded change (`/verif/seeded/<id>/`)', seeded)
s = repl(s, '| change (`/verif/benign/<id>/`)', benign)
open(p, 'w').write(s)
print('seeded: %d kept, %d caught; benign: %d kept, %d silent' % (n, caught, nb, silent))
