#!/bin/bash
# benigncheck.sh <id> <property> <srcdir> : a property-PRESERVING change from an independent author (negative control).
# Confirms build + existing tests in a scratch worktree, applies the patch to /repo, runs the quick check (must exit 0),
# undoes the patch, stores patch + verdict under /verif/benign/<id>/.
unset GOPROXY GOSUMDB GOTOOLCHAIN; export GOFLAGS=-mod=mod
id=$1; prop=$2; src=$3
out=/verif/benign/$id; mkdir -p $out
cp $src/patch.diff $out/patch.diff; cp $src/meta.txt $out/author_notes.txt 2>/dev/null
wt=/tmp/benignwt-$id
git -C /repo worktree remove --force $wt 2>/dev/null; rm -rf $wt
git -C /repo worktree add -q $wt HEAD || exit 2
trap 'git -C /repo worktree remove --force '$wt' 2>/dev/null; rm -rf '$wt EXIT
cd $wt; git apply $out/patch.diff || { echo "PATCH DOES NOT APPLY"; exit 3; }
build=ok; go build ./... >/tmp/benign-$id.build 2>&1 || build=FAIL
tests=ok; go test -vet=off -count=1 ./... >/tmp/benign-$id.tests 2>&1 || tests=FAIL
cd /verif
git -C /repo apply $out/patch.diff || exit 3
/verif/check $prop quick > /tmp/benign-$id.check 2>&1; rc=$?
git -C /repo apply -R $out/patch.diff 2>/dev/null; git -C /repo checkout -- .; git -C /repo clean -fdq
classes=$(grep -E "^violation:" /tmp/benign-$id.check | sed -E 's/violation: class=([^ ]+) key=(.*) runs=([0-9]+).*/\1{\2} x\3/' | paste -sd';')
trouble=$(grep -E "TROUBLE" /tmp/benign-$id.check | head -2 | cut -c1-300)
python3 - "$id" "$prop" "$build" "$tests" "$rc" "$classes" "$trouble" <<'PY'
import json,sys,os
id,prop,build,tests,rc,classes,trouble=sys.argv[1:8]
out='/verif/benign/%s'%id
notes=open(out+'/author_notes.txt').read() if os.path.exists(out+'/author_notes.txt') else ''
json.dump({"id":id,"property":prop,"kind":"property-preserving change (negative control) by an independent sub-agent",
 "author_notes":notes,"patched_tree_builds":build=="ok","existing_test_suite_passes":tests=="ok",
 "check":{"command":"/verif/check %s quick"%prop,"exit":int(rc),"silent":int(rc)==0,"violations":classes,"trouble":trouble}},open(out+'/meta.json','w'),indent=1)
print("benign %-44s %s build=%s tests=%s check_exit=%s %s %s"%(id,prop,build,tests,rc,classes[:160],trouble[:160]))
PY
