#!/bin/bash
# reseed.sh [id...] : re-run the current quick check against kept seeded changes and refresh meta.json "check"
# The checks run from a snapshot of /verif (outside /repo and /verif, removed at the end), so that /verif can be edited
# meanwhile; results go to /verif/seeded/<id>/meta.json.
SNAP=$(mktemp -d /tmp/verif-snap.XXXXXX)
rsync -a --exclude build --exclude .git --exclude replays /verif/ $SNAP/ && mkdir -p $SNAP/replays
trap 'rm -rf $SNAP' EXIT
cd /verif
ids="$@"; [ -z "$ids" ] && ids=$(ls seeded)
for id in $ids; do
  d=seeded/$id; [ -f $d/meta.json ] || continue
  prop=$(python3 -c "import json;print(json.load(open('$d/meta.json'))['breaks_property'])")
  git -C /repo apply /verif/$d/patch.diff || { echo "$id: patch does not apply"; continue; }
  t0=$(date +%s); $SNAP/check $prop quick > /tmp/reseed-$id.out 2>&1; rc=$?; t1=$(date +%s)
  git -C /repo apply -R /verif/$d/patch.diff 2>/dev/null; git -C /repo checkout -- .; git -C /repo clean -fdq
  classes=$(grep -E "^violation:" /tmp/reseed-$id.out | sed -E 's/violation: class=([^ ]+) key=(.*) runs=([0-9]+).*/\1{\2} x\3/' | paste -sd';')
  python3 - "$d" "$prop" "$rc" "$classes" "$((t1-t0))" <<'PY'
import json,sys
d,prop,rc,classes,secs=sys.argv[1:6]
m=json.load(open(d+'/meta.json'))
m['check']={"command":"/verif/check %s quick (patch applied to /repo, undone afterwards)"%prop,"exit":int(rc),"caught":int(rc)==1,"violations":classes,"wall_s":int(secs)}
json.dump(m,open(d+'/meta.json','w'),indent=1)
print("%-40s %s caught=%s  %s (%ss)"%(d.split('/')[-1],prop,int(rc)==1,classes[:150],secs))
PY
done
