package c18

import (
	"context"
	"encoding/binary"
	"fmt"
	"net"
	"time"

	"github.com/TheManticoreProject/Manticore/network/llmnr"
	"verif.local/harness/hx"
	simnet "verif.local/sim/net"
	"verif.local/sim/rt"
)

// ---------------------------------------------------------------- Stop / Close at every statement boundary
//
// "all points in time at which Close/Stop is called relative to in-flight requests": with one or two requests in
// flight and no other source of nondeterminism (no faults, the boring schedule), the stopping task is released after
// exactly k statements of everybody else, for every k from 0 up to well past the point where the system has gone
// idle again. The run is then judged like any other: Stop/Close returns within the bound, loops and handlers are gone,
// nothing deadlocks, panics or races, and whatever answers did get out carry the ids that were asked.
//
// index -> (system, requests in flight, k)

const stopEnumK = 900

var stopEnumSystems = [...]string{"nbtns.Server/udp", "nbtns.UDPServer/udp", "nbtns.TCPServer/tcp", "llmnr.Server", "llmnr.Client", "llmnr.Server/handler-registers-handler", "nbtns.TCPServer/idle-connection", "llmnr.Server/close-during-startup"}

// the systems of the single-preemption enumeration
var stopEnum1Systems = [...]int{0, 1, 2, 3, 4, 5, 7}

func StopEnumSize() int64 { return int64(len(stopEnum1Systems)) * 2 * stopEnumK }

func runStopEnum(w *rt.World, res *hx.Result, index int64) *hx.Violation {
	k := int(index % stopEnumK)
	m := 1 + int(index/stopEnumK%2)
	sysIdx := stopEnum1Systems[int(index/(2*stopEnumK))%len(stopEnum1Systems)]
	return stopEnumRun(w, res, sysIdx, m, k, 0)
}

// Two preemptions: the stopping task is released after exactly k statements of the system (k < 80: the windows right
// behind accepting a connection / receiving a request / starting a loop) and is itself taken off the processor after
// exactly j statements of Stop / Close (j = 1..14), until everybody else has run as far as they can; then it goes on.
// This is the schedule in which a Stop that does its steps in the wrong order (signal last, close first, ...) shows.
const (
	stopEnum2K = 80
	stopEnum2J = 14
)

var stopEnum2Systems = [...]int{0, 1, 2, 3, 4, 6, 7}

func StopEnum2Size() int64 { return int64(len(stopEnum2Systems)) * stopEnum2K * stopEnum2J }

func runStopEnum2(w *rt.World, res *hx.Result, index int64) *hx.Violation {
	j := 1 + int(index%stopEnum2J)
	k := int(index / stopEnum2J % stopEnum2K)
	sysIdx := stopEnum2Systems[int(index/(stopEnum2J*stopEnum2K))%len(stopEnum2Systems)]
	return stopEnumRun(w, res, sysIdx, 1, k, j)
}

func stopEnumRun(w *rt.World, res *hx.Result, sysIdx, m, k, j int) *hx.Violation {
	sysName := stopEnumSystems[sysIdx]
	res.Sample = fmt.Sprintf("system=%s in-flight=%d stop-after-statements=%d stopper-descheduled-after=%d", sysName, m, k, j)
	res.NonTrivial = true
	w.Quiet = true

	armed, called := &rt.Flag{}, &rt.Flag{}
	placed := false
	park := func() {
		armed.Set()
		if k > 0 {
			placed = rt.AfterPoints(k, rt.Now()+1e9)
		}
		if j > 0 {
			rt.StallAfter(j)
		}
		called.Set()
	}
	finish := func(stopper *rt.Task, what string, bound int64, extra ...*rt.Task) *hx.Violation {
		called.Wait(-1)
		if !joinWithin(stopper, bound) {
			return &hx.Violation{Class: "stop_blocked", Key: sysName + "/stopenum",
				Msg: fmt.Sprintf("%s, called after exactly %d statements of the system with %d request(s) in flight (and itself descheduled after %d of its own statements, 0 = not), had not returned %.0f simulated seconds later; the calling task is %s", what, k, m, j, float64(bound)/1e9, stopper.StateString())}
		}
		for _, t := range extra {
			if !joinWithin(t, bound) {
				return &hx.Violation{Class: "serve_not_returned", Key: sysName + "/stopenum",
					Msg: fmt.Sprintf("%s was called after exactly %d statements of the system; %s has not returned %.0f simulated seconds later (%s)", what, k, t.Name, float64(bound)/1e9, t.StateString())}
			}
		}
		if v := shutdownCheck(sysName+"/stopenum", bound); v != nil {
			return v
		}
		if placed {
			rt.Probe(PStopAtStatement)
		}
		return nil
	}
	idBase := uint16(0x6100)
	checkIDs := func(got [][]byte) *hx.Violation {
		seen := map[uint16]bool{}
		for _, b := range got {
			if len(b) < 2 {
				return &hx.Violation{Class: "wrong_answer", Key: sysName + "/stopenum", Msg: fmt.Sprintf("a %d-byte response", len(b))}
			}
			id := binary.BigEndian.Uint16(b)
			if id < idBase || id >= idBase+uint16(m) || seen[id] {
				return &hx.Violation{Class: "id_mismatch", Key: sysName + "/stopenum",
					Msg: fmt.Sprintf("with %d request(s) in flight (ids %#04x..) and Stop after %d statements, the client received a response with id %#04x (duplicate: %v)", m, idBase, k, id, seen[id])}
			}
			seen[id] = true
		}
		return nil
	}

	switch sysIdx {
	case 0, 1, 2, 6:
		kind := 1
		if sysIdx > 0 {
			kind = 2
		}
		release := &rt.Flag{}
		sys := startNB(kind)
		if sys.err != nil {
			return &hx.Violation{Class: "start_failed", Key: sysName, Msg: sys.err.Error()}
		}
		stopper := rt.GoHarness("stopper", serverHost, func() {
			park()
			noteStop()
			sys.stop()
		})
		armed.Wait(-1)
		var got [][]byte
		client := rt.GoHarness("client", "10.0.1.1", func() {
			reqs := make([][]byte, m)
			for i := range reqs {
				if i == 0 {
					reqs[i] = buildRequest(idBase, 5, 0, []string{"STOPENUM"}, "STOPENUM", net.IP{10, 9, 9, 9}, 300, true)
				} else {
					reqs[i] = buildRequest(idBase+uint16(i), 0, 0, []string{"STOPENUM"}, "", nil, 0, false)
				}
			}
			if sysIdx == 6 {
				// connects and says nothing: the connection is somewhere between Accept and the handler's read when
				// Stop comes
				c, err := simnet.Dial("tcp", serverHost+":137")
				if err != nil {
					return
				}
				release.Wait(-1)
				c.Close()
				return
			}
			if sysIdx == 2 {
				c, err := simnet.Dial("tcp", serverHost+":137")
				if err != nil {
					return
				}
				defer c.Close()
				c.SetDeadline(simNow().Add(2 * time.Second))
				var all []byte
				for _, r := range reqs {
					fr := make([]byte, 2, 2+len(r))
					binary.BigEndian.PutUint16(fr, uint16(len(r)))
					all = append(all, append(fr, r...)...)
				}
				if _, err := c.Write(all); err != nil {
					return
				}
				for len(got) < m {
					f := readFrame(c)
					if f == nil {
						return
					}
					got = append(got, f)
				}
				return
			}
			c, err := simnet.ListenUDP("udp4", &net.UDPAddr{})
			if err != nil {
				return
			}
			defer c.Close()
			for _, r := range reqs {
				c.WriteToUDP(r, &net.UDPAddr{IP: serverIP, Port: 137})
			}
			c.SetReadDeadline(simNow().Add(2 * time.Second))
			buf := make([]byte, 2048)
			for len(got) < m {
				n, _, err := c.ReadFromUDP(buf)
				if err != nil {
					return
				}
				got = append(got, append([]byte(nil), buf[:n]...))
			}
		})
		v := finish(stopper, "Stop()", nbStopBound)
		release.Set()
		rt.Join(client, -1)
		if v != nil {
			return v
		}
		noteSockets()
		return checkIDs(got)

	case 3, 5:
		// system 5: the first query's handler registers one more handler on the running server, from inside the
		// chain; the client sends its queries one after the other, so that nothing else touches the handler list
		// at that moment
		registered := sysIdx != 5
		respond := llmnr.HandlerFunc(func(s *llmnr.Server, remote net.Addr, wr llmnr.ResponseWriter, msg *llmnr.Message) bool {
			if !registered {
				registered = true
				s.RegisterHandler(llmnr.HandlerFunc(func(*llmnr.Server, net.Addr, llmnr.ResponseWriter, *llmnr.Message) bool { return true }))
			}
			if len(msg.Questions) == 1 {
				resp := llmnr.CreateResponseFromMessage(msg)
				resp.AddAnswerClassINTypeA(msg.Questions[0].Name, "10.3.0.1")
				wr.WriteMessage(resp)
			}
			return true
		})
		srv, err := llmnr.NewIPv4ServerWithHandlers([]llmnr.Handler{respond, llmnr.HandlerFunc(llmnr.HandlerDescribePacket)})
		if err != nil {
			return &hx.Violation{Class: "start_failed", Key: sysName, Msg: err.Error()}
		}
		ls := rt.GoHarness("llmnr-listen-and-serve", serverHost, func() { srv.ListenAndServe() })
		for i := 0; i < 2000 && simnet.GroupMembers(5355) < 1; i++ {
			rt.SleepUntil(rt.Now() + 1e6)
		}
		stopper := rt.GoHarness("stopper", serverHost, func() {
			park()
			noteStop()
			srv.Close()
		})
		armed.Wait(-1)
		var got [][]byte
		client := rt.GoHarness("client", "10.0.1.1", func() {
			c, err := simnet.ListenUDP("udp4", &net.UDPAddr{})
			if err != nil {
				return
			}
			defer c.Close()
			buf := make([]byte, 2048)
			if sysIdx == 5 {
				for i := 0; i < m; i++ {
					c.WriteToUDP(dnsQuery(idBase+uint16(i), llName(i)), groupAddr)
					c.SetReadDeadline(simNow().Add(700 * time.Millisecond))
					if n, _, err := c.ReadFromUDP(buf); err == nil {
						got = append(got, append([]byte(nil), buf[:n]...))
					}
				}
				return
			}
			for i := 0; i < m; i++ {
				c.WriteToUDP(dnsQuery(idBase+uint16(i), llName(i)), groupAddr)
			}
			c.SetReadDeadline(simNow().Add(2 * time.Second))
			for len(got) < m {
				n, _, err := c.ReadFromUDP(buf)
				if err != nil {
					return
				}
				got = append(got, append([]byte(nil), buf[:n]...))
			}
		})
		v := finish(stopper, "Close()", llStopBound, ls)
		rt.Join(client, -1)
		if v != nil {
			return v
		}
		for _, b := range got {
			d := dnsParse(b)
			if d.ok && len(d.qnames) == 1 && int(d.id-idBase) < m && d.qnames[0] != llName(int(d.id-idBase)) {
				return &hx.Violation{Class: "wrong_answer", Key: sysName + "/stopenum",
					Msg: fmt.Sprintf("the response with id %#04x is about %q, the query with that id asked for %q", d.id, d.qnames[0], llName(int(d.id-idBase)))}
			}
		}
		noteSockets()
		return checkIDs(got)

	case 7:
		// Close lands while ListenAndServe is still starting up (k statements into it): ListenAndServe returns, nothing
		// is left listening. No traffic.
		srv, err := llmnr.NewIPv4ServerWithHandlers([]llmnr.Handler{llmnr.HandlerFunc(llmnr.HandlerDescribePacket)})
		if err != nil {
			return &hx.Violation{Class: "start_failed", Key: sysName, Msg: err.Error()}
		}
		stopper := rt.GoHarness("stopper", serverHost, func() {
			park()
			noteStop()
			srv.Close()
		})
		armed.Wait(-1)
		ls := rt.GoHarness("llmnr-listen-and-serve", serverHost, func() { srv.ListenAndServe() })
		if v := finish(stopper, "Close()", llStopBound, ls); v != nil {
			return v
		}
		noteSockets()
		return nil

	case 4:
		stopResponder := false
		var rsock *simnet.UDPConn
		responder := rt.GoHarness("responder", "10.0.2.1", func() {
			c, err := simnet.ListenMulticastUDP("udp4", nil, groupAddr)
			if err != nil {
				return
			}
			rsock = c
			defer c.Close()
			buf := make([]byte, 1024)
			for !stopResponder {
				c.SetReadDeadline(simNow().Add(500 * time.Millisecond))
				n, src, err := c.ReadFromUDP(buf)
				if err != nil {
					continue
				}
				q := dnsParse(buf[:n])
				if q.ok && q.flags&0x8000 == 0 && len(q.qnames) == 1 {
					c.WriteToUDP(dnsResponse(q.id, 0x8000, q.qnames[0], net.IP{10, 3, 0, 9}), src)
				}
			}
		})
		for i := 0; i < 2000 && simnet.GroupMembers(5355) < 1; i++ {
			rt.SleepUntil(rt.Now() + 1e6)
		}
		var cl *llmnr.Client
		mk := rt.GoHarness("client-start", "10.0.1.1", func() { cl, _ = llmnr.NewClient() })
		rt.Join(mk, -1)
		if cl == nil {
			return &hx.Violation{Class: "start_failed", Key: sysName, Msg: "NewClient failed"}
		}
		stopper := rt.GoHarness("client-closer", "10.0.1.1", func() {
			park()
			noteStop()
			cl.Close()
		})
		armed.Wait(-1)
		type qres struct {
			name string
			resp *llmnr.Message
			err  error
		}
		results := make([]*qres, m)
		var qtasks []*rt.Task
		for i := 0; i < m; i++ {
			r := &qres{name: llName(i)}
			results[i] = r
			qtasks = append(qtasks, rt.GoHarness(fmt.Sprintf("query%d", i), "10.0.1.1", func() {
				r.resp, r.err = cl.Query(context.Background(), r.name, llmnr.TypeA)
			}))
		}
		// a Query that is waiting when the client is closed may return at once or run into its own timeout (2 s)
		v := finish(stopper, "Client.Close()", llStopBound)
		if v == nil {
			for _, t := range qtasks {
				if !joinWithin(t, 2e9+llStopBound) {
					v = &hx.Violation{Class: "stop_blocked", Key: sysName + "/stopenum",
						Msg: fmt.Sprintf("Client.Close() was called after exactly %d statements; %s has not returned although its own 2 s timeout is long over (%s)", k, t.Name, t.StateString())}
					break
				}
			}
		}
		stopResponder = true
		if rsock != nil {
			rsock.Close()
		}
		rt.Join(responder, -1)
		if v != nil {
			return v
		}
		if v := shutdownCheck(sysName+"/stopenum", llStopBound); v != nil {
			return v
		}
		for _, r := range results {
			if r.err == nil && r.resp != nil && (len(r.resp.Questions) != 1 || r.resp.Questions[0].Name != r.name) {
				return &hx.Violation{Class: "client_mismatch", Key: "wrong_question",
					Msg: fmt.Sprintf("Query(%q) returned a message about %v", r.name, r.resp.Questions)}
			}
		}
		noteSockets()
		return nil
	}
	return nil
}
