package c18

import (
	"context"
	"encoding/binary"
	"fmt"
	"net"
	"strings"
	"time"

	"github.com/TheManticoreProject/Manticore/logger"
	"github.com/TheManticoreProject/Manticore/network/llmnr"
	"github.com/TheManticoreProject/Manticore/network/netbios/nbtns"

	"verif.local/harness/hx"
	simctx "verif.local/sim/context"
	simnet "verif.local/sim/net"
	"verif.local/sim/rt"
	simtime "verif.local/sim/time"
)

var groupAddr = &net.UDPAddr{IP: net.IP{224, 0, 0, 252}, Port: 5355}

// ---------------------------------------------------------------- independent minimal RFC 1035 codec

func dnsName(name string) []byte {
	var b []byte
	for _, l := range strings.Split(name, ".") {
		b = append(b, byte(len(l)))
		b = append(b, l...)
	}
	return append(b, 0)
}

func dnsQuery(id uint16, name string) []byte {
	b := make([]byte, 12)
	binary.BigEndian.PutUint16(b[0:], id)
	binary.BigEndian.PutUint16(b[4:], 1)
	b = append(b, dnsName(name)...)
	return append(b, 0, 1, 0, 1)
}

// dnsQueryCarrying is a query that also carries one answer record (as a conflict-detection or
// record-bearing request would); the record's address is unique to the request.
func dnsQueryCarrying(id uint16, name string, marker net.IP) []byte {
	b := make([]byte, 12)
	binary.BigEndian.PutUint16(b[0:], id)
	binary.BigEndian.PutUint16(b[4:], 1)
	binary.BigEndian.PutUint16(b[6:], 1)
	b = append(b, dnsName(name)...)
	b = append(b, 0, 1, 0, 1)
	b = append(b, dnsName(name)...)
	b = append(b, 0, 1, 0, 1, 0, 0, 0, 30, 0, 4)
	return append(b, marker.To4()...)
}

func markerOf(id uint16) net.IP { return net.IP{10, 7, byte(id >> 8), byte(id)} }

// dnsResponseT answers a question of the given type (1 = A, 28 = AAAA) with one record of that type.
func dnsResponseT(id uint16, name string, qtype uint16, rdata []byte) []byte {
	b := make([]byte, 12)
	binary.BigEndian.PutUint16(b[0:], id)
	binary.BigEndian.PutUint16(b[2:], 0x8000)
	binary.BigEndian.PutUint16(b[4:], 1)
	binary.BigEndian.PutUint16(b[6:], 1)
	b = append(b, dnsName(name)...)
	b = append(b, byte(qtype>>8), byte(qtype), 0, 1)
	b = append(b, dnsName(name)...)
	b = append(b, byte(qtype>>8), byte(qtype), 0, 1, 0, 0, 0, 30, byte(len(rdata)>>8), byte(len(rdata)))
	return append(b, rdata...)
}

func llIP6(i int) net.IP {
	return net.IP{0xfd, 0, 0, 0, 0, 0, 0, 0, 0, 0, 0, 0, 0, 3, byte(i >> 8), byte(i)}
}

func wireKey(name string, qtype uint16) string { return fmt.Sprintf("%s/%d", name, qtype) }

func dnsResponse(id uint16, flags uint16, name string, ip net.IP) []byte {
	b := make([]byte, 12)
	binary.BigEndian.PutUint16(b[0:], id)
	binary.BigEndian.PutUint16(b[2:], flags)
	binary.BigEndian.PutUint16(b[4:], 1)
	binary.BigEndian.PutUint16(b[6:], 1)
	b = append(b, dnsName(name)...)
	b = append(b, 0, 1, 0, 1)
	b = append(b, dnsName(name)...)
	b = append(b, 0, 1, 0, 1, 0, 0, 0, 30, 0, 4)
	return append(b, ip.To4()...)
}

type dnsMsg struct {
	id      uint16
	flags   uint16
	qnames  []string
	qtypes  []uint16
	answers []nbAnswer
	ok      bool
}

func dnsReadName(b []byte, off int) (string, int, bool) {
	var labels []string
	jumped := false
	ret := off
	for hops := 0; hops < 16; {
		if off >= len(b) {
			return "", 0, false
		}
		l := int(b[off])
		switch {
		case l == 0:
			if !jumped {
				ret = off + 1
			}
			return strings.Join(labels, "."), ret, true
		case l&0xC0 == 0xC0:
			if off+1 >= len(b) {
				return "", 0, false
			}
			if !jumped {
				ret = off + 2
			}
			off = int(binary.BigEndian.Uint16(b[off:]) & 0x3FFF)
			jumped = true
			hops++
		default:
			if off+1+l > len(b) {
				return "", 0, false
			}
			labels = append(labels, string(b[off+1:off+1+l]))
			off += 1 + l
		}
	}
	return "", 0, false
}

func dnsParse(b []byte) dnsMsg {
	var m dnsMsg
	if len(b) < 12 {
		return m
	}
	m.id = binary.BigEndian.Uint16(b[0:])
	m.flags = binary.BigEndian.Uint16(b[2:])
	qd, an := int(binary.BigEndian.Uint16(b[4:])), int(binary.BigEndian.Uint16(b[6:]))
	off := 12
	for i := 0; i < qd; i++ {
		n, o, ok := dnsReadName(b, off)
		if !ok || o+4 > len(b) {
			return m
		}
		m.qnames = append(m.qnames, n)
		m.qtypes = append(m.qtypes, binary.BigEndian.Uint16(b[o:]))
		off = o + 4
	}
	for i := 0; i < an; i++ {
		n, o, ok := dnsReadName(b, off)
		if !ok || o+10 > len(b) {
			return m
		}
		rdl := int(binary.BigEndian.Uint16(b[o+8:]))
		if o+10+rdl > len(b) {
			return m
		}
		m.answers = append(m.answers, nbAnswer{name: n, ip: net.IP(append([]byte(nil), b[o+10:o+10+rdl]...))})
		off = o + 10 + rdl
	}
	m.ok = true
	return m
}

func llName(i int) string { return fmt.Sprintf("node%03d.corp", i) }
func llIP(i int) net.IP   { return net.IP{10, 3, byte(i >> 8), byte(i)} }

// ---------------------------------------------------------------- LLMNR server and / or client

type llQuery struct {
	qtype  uint16 // real client: 1 (A) or 28 (AAAA)
	carry  bool   // raw clients: the query carries a record whose address the responder must echo
	name   int
	id     uint16 // raw clients: chosen; real client: learnt from the wire
	cancel int64  // real client: cancel the context after this long (0 = never)
	ctxTO  int64  // real client: the caller's context carries a deadline this far in the future (0 = none)
	resp   *llmnr.Message
	err    error
	start  int64
	end    int64
	done   bool
}

// llStopBound: "promptly" for LLMNR: nothing in its shutdown path waits on a timer.
const llStopBound = int64(2e9)

const poisonName = "poison.corp"

type llRawClient struct {
	idx    int
	host   string
	poison bool // sends the query that makes a handler close the server
	qs     []*llQuery
	got    [][]byte
}

func runLLMNR(w *rt.World, res *hx.Result, realServer, realClient bool) *hx.Violation {
	sysName := "llmnr.Server"
	if realClient && realServer {
		sysName = "llmnr.Client+Server"
	} else if realClient {
		sysName = "llmnr.Client"
	}
	// ---- generation (fixed width)
	const maxNames, maxClients, maxQ = 10, 5, 5
	nNames := 2 + hx.G(maxNames-1)
	if realClient && nNames < 8 {
		nNames = 8 // every Query call of the real client asks about its own name
	}
	var known [maxNames]bool
	for i := range known {
		known[i] = hx.G(4) != 0
	}
	var pool [maxClients][maxQ][2]int
	for c := range pool {
		for q := range pool[c] {
			pool[c][q] = [2]int{hx.G(maxNames), hx.G(6)}
		}
	}
	var clN [maxClients]int
	for c := range clN {
		clN[c] = 1 + hx.G(maxQ)
	}
	nClients := 1 + hx.G(maxClients)
	chain := hx.G(4) // 3: the first handler closes the server from inside the handler goroutine when it sees the poison name
	stopMode := hx.F(11)
	// modes 3 and 4: at time 0, racing with ListenAndServe; 8: while a handler chain is running; 9: while a SUT task waits for a lock
	// 10: after an exact number of SUT statements from the start of the traffic
	stopAt := [...]int64{0, 0, 0, 0, 0, 50e6, 1e9, 2500e6, 0, 0, 0}[stopMode]
	stopAfterPts := 1 + hx.F(700)
	stopTwice := hx.F(3) == 0
	clientCloseMode := hx.F(6)
	strayMode := hx.F(4)
	nResponders := 1 + hx.G(2)
	v6 := hx.G(4) == 0 && realServer && !realClient // the IPv6 flavour of the server (FF02::1:3), raw clients only
	group := groupAddr
	if v6 {
		group = &net.UDPAddr{IP: net.ParseIP("FF02::1:3"), Port: 5355}
	}
	timeoutKnob := hx.G(3) // real client: Timeout 2 s (default), 300 ms, 5 s
	dbgDescribe := hx.G(2) == 0
	nagOn := hx.G(4) == 0 && nResponders == 1
	edgeIDs := hx.G(3) == 0
	llJunk := [...]int{0, 0, 0, 2, 5, 9}[hx.G(6)]
	llJunkShape := hx.G(3)
	inPlace := hx.G(4) == 0 // the responder handler turns the query message itself into the response
	jitter := hx.G(3) == 0  // the responder handler answers after it returned, from a timer (RFC 4795 jitter), through the writer it was given

	canaryRan := false
	var srv *llmnr.Server
	var lsTask *rt.Task
	var lsErr error
	if realServer {
		respond := llmnr.HandlerFunc(func(s *llmnr.Server, remote net.Addr, wr llmnr.ResponseWriter, msg *llmnr.Message) bool {
			if len(msg.Questions) == 0 {
				return chain == 1
			}
			name := msg.Questions[0].Name
			for i := 0; i < nNames; i++ {
				if known[i] && llName(i) == name {
					var carried net.IP
					if len(msg.Answers) > 0 && len(msg.Answers[0].RData) == 4 {
						carried = net.IP(msg.Answers[0].RData)
					}
					resp := llmnr.CreateResponseFromMessage(msg)
					if inPlace && len(msg.Answers) == 0 {
						// a handler that answers in place: the message it was handed is its own to turn into the response
						msg.SetResponse()
						resp = msg
					}
					if msg.Questions[0].Type == llmnr.TypeAAAA {
						resp.AddAnswerClassINTypeAAAA(name, llIP6(i).String())
					} else {
						resp.AddAnswerClassINTypeA(name, llIP(i).String())
					}
					if carried != nil {
						// echo the record the request carried: read from the decoded message when the handler runs
						resp.AddAnswerClassINTypeA(name, carried.String())
					}
					if jitter {
						d := time.Duration(1+int(msg.ID)%7) * time.Millisecond
						simtime.AfterFunc(d, func() { wr.WriteMessage(resp) })
					} else {
						wr.WriteMessage(resp)
					}
				}
			}
			return chain == 1 // in chain 1 the real describe handler ends the chain
		})
		locker := llmnr.HandlerFunc(func(*llmnr.Server, net.Addr, llmnr.ResponseWriter, *llmnr.Message) bool {
			logger.Lock()
			logger.Unlock()
			return true
		})
		canary := llmnr.HandlerFunc(func(*llmnr.Server, net.Addr, llmnr.ResponseWriter, *llmnr.Message) bool {
			canaryRan = true
			return false
		})
		closerH := llmnr.HandlerFunc(func(s *llmnr.Server, _ net.Addr, _ llmnr.ResponseWriter, msg *llmnr.Message) bool {
			if len(msg.Questions) > 0 && msg.Questions[0].Name == poisonName {
				s.Close() // "stopping a server at any moment" includes from one of its own handler goroutines
			}
			return true
		})
		var handlers []llmnr.Handler
		switch chain {
		case 3:
			handlers = []llmnr.Handler{closerH, respond, canary}
		case 0:
			handlers = []llmnr.Handler{locker, respond, canary}
		case 1:
			handlers = []llmnr.Handler{respond, llmnr.HandlerFunc(llmnr.HandlerDescribePacket), canary}
		default:
			handlers = []llmnr.Handler{respond, canary}
		}
		// a second Server value in the same process, never started: nothing it was given may ever run
		decoyHandler := llmnr.HandlerFunc(func(*llmnr.Server, net.Addr, llmnr.ResponseWriter, *llmnr.Message) bool {
			canaryRan = true
			return false
		})
		if decoy, derr := llmnr.NewIPv4ServerWithHandlers([]llmnr.Handler{decoyHandler}); derr == nil {
			decoy.RegisterHandler(decoyHandler)
		}
		var err error
		if v6 {
			srv, err = llmnr.NewIPv6ServerWithHandlers(handlers)
		} else {
			srv, err = llmnr.NewIPv4ServerWithHandlers(handlers)
		}
		if err != nil {
			return &hx.Violation{Class: "start_failed", Key: sysName, Msg: err.Error()}
		}
		if chain == 2 || (chain == 1 && dbgDescribe) {
			srv.SetDebug(true) // the debug logging paths of Serve run too (in chain 1 together with the describe handler's locking)
		}
		lsTask = rt.GoHarness("llmnr-listen-and-serve", serverHost, func() { lsErr = srv.ListenAndServe() })
	}

	// ---- harness responders (only when the server is not the real one)
	wireID := map[string][]uint16{} // name -> ids seen on the wire (filled by responders / sniffers)
	nagged := map[string]bool{}     // names whose query met the nagging responder
	var respTasks []*rt.Task
	stopResponders := false
	var respSocks []*simnet.UDPConn
	nSniff := 0
	if !realServer {
		nSniff = nResponders
	} else if realClient {
		nSniff = 1 // a silent group member that only records (name, id) pairs
	}
	for r := 0; r < nSniff; r++ {
		r := r
		silent := realServer
		respTasks = append(respTasks, rt.GoHarness(fmt.Sprintf("responder%d", r), fmt.Sprintf("10.0.2.%d", r+1), func() {
			c, err := simnet.ListenMulticastUDP("udp4", nil, groupAddr)
			if err != nil {
				return
			}
			respSocks = append(respSocks, c)
			defer c.Close()
			buf := make([]byte, 1024)
			for !stopResponders {
				c.SetReadDeadline(time.Unix(rt.EpochUnix, 0).Add(time.Duration(rt.Now() + 500e6)))
				n, src, err := c.ReadFromUDP(buf)
				if err != nil {
					continue
				}
				m := dnsParse(buf[:n])
				if !m.ok || m.flags&0x8000 != 0 || len(m.qnames) != 1 {
					continue
				}
				name := m.qnames[0]
				qtype := m.qtypes[0]
				if r == 0 {
					wireID[wireKey(name, qtype)] = append(wireID[wireKey(name, qtype)], m.id)
				}
				if silent {
					continue
				}
				idx := -1
				for i := 0; i < nNames; i++ {
					if llName(i) == name {
						idx = i
					}
				}
				if idx < 0 || !known[idx] {
					continue
				}
				if nagOn && r == 0 && int(m.id)%3 == 0 && qtype != 28 && idx != maxNames-1 {
					// a responder that keeps answering this query's id with messages about something else, every
					// 300 ms for 6 s, and never sends the real answer: Query hands out the first of them (matching is
					// by id) or ignores them and gives up when its timeout is over -- measured from the send, not from
					// the last message it did not like
					nagged[name] = true
					rt.Probe(PNagging)
					id, to := m.id, *src
					rt.GoHarness("nagger", fmt.Sprintf("10.0.2.%d", r+1), func() {
						for i := 0; i < 20 && !stopResponders; i++ {
							c.WriteToUDP(dnsResponse(id, 0x8000, "stray.invalid", net.IP{192, 0, 2, 1}), &to)
							rt.SleepUntil(rt.Now() + 300e6)
						}
					})
					continue
				}
				switch (strayMode + int(m.id)) % 4 {
				case 1: // a stray with an id nobody uses, then the answer
					rt.Probe(PStrayDelivered)
					c.WriteToUDP(dnsResponse(m.id^0x5555, 0x8000, "stray.invalid", net.IP{192, 0, 2, 1}), src)
				case 2: // the query echoed back (QR=0) with the right id must not be taken for a response
					rt.Probe(PStrayDelivered)
					c.WriteToUDP(dnsQuery(m.id, name), src)
				}
				if qtype == 28 {
					c.WriteToUDP(dnsResponseT(m.id, name, 28, llIP6(idx)), src)
				} else {
					c.WriteToUDP(dnsResponse(m.id, 0x8000, name, llIP(idx)), src)
				}
			}
		}))
	}

	// clients start once everybody who should hear them has joined the group (a query sent into the void
	// is nobody's bug); the close-at-time-zero scenarios deliberately skip the wait for the real server
	wantMembers := nSniff
	if realServer && !(stopMode == 3 || stopMode == 4) {
		wantMembers++
	}
	for i := 0; i < 2000 && simnet.GroupMembers(5355) < wantMembers; i++ {
		rt.SleepUntil(rt.Now() + 1e6)
	}

	// ---- clients
	startT := rt.Now()
	var tasks []*rt.Task
	var raws []*llRawClient
	var realQs []*llQuery
	var cl, cl2 *llmnr.Client // cl2: a second Client instance in the same process (state must not leak between instances)
	twoClients := hx.G(2) == 0
	twins := hx.G(3) == 0
	idc := uint16(0x2000 + hx.G(0x4000))
	if realClient {
		mk := rt.GoHarness("client-start", "10.0.1.1", func() {
			var err error
			cl, err = llmnr.NewClient()
			if err == nil && twoClients {
				cl2, err = llmnr.NewClient()
			}
			if err != nil {
				cl = nil
			}
		})
		rt.Join(mk, -1)
		if cl == nil {
			return &hx.Violation{Class: "start_failed", Key: sysName, Msg: "NewClient failed"}
		}
		switch timeoutKnob {
		case 1:
			cl.Timeout = 300 * time.Millisecond
		case 2:
			cl.Timeout = 5 * time.Second
		}
		if cl2 != nil {
			cl2.Timeout = cl.Timeout
		}
		n := 0
		for c := 0; c < nClients; c++ {
			for q := 0; q < clN[c] && n < 8; q++ {
				// every Query call asks about its own name so that the wire id can be attributed
				lq := &llQuery{name: n, qtype: llmnr.TypeA}
				if pool[c][q][1] == 0 {
					lq.cancel = [...]int64{1e6, 100e6, 1e9}[pool[c][q][0]%3]
				}
				if pool[c][q][1] == 1 {
					// the caller's context has a deadline of its own (shorter or longer than the client's timeout)
					lq.ctxTO = [...]int64{150e6, 1e9, 4e9}[pool[c][q][0]%3]
				}
				if twins && n > 0 && n%2 == 1 {
					// the same name as the previous call, the other record type, on the same Client, at the same time
					// (what a dual-stack resolver does)
					lq.name, lq.qtype, lq.cancel, lq.ctxTO = n-1, llmnr.TypeAAAA, realQs[len(realQs)-1].cancel, 0
				}
				n++
				realQs = append(realQs, lq)
				tasks = append(tasks, rt.GoHarness(fmt.Sprintf("query%d/%d", lq.name, lq.qtype), "10.0.1.1", func() {
					ctx, cancel := context.WithCancel(context.Background())
					defer cancel()
					if lq.ctxTO > 0 {
						var c2 context.CancelFunc
						ctx, c2 = simctx.WithTimeout(ctx, time.Duration(lq.ctxTO))
						defer c2()
						rt.Probe(PCtxDeadline)
					}
					if lq.cancel > 0 {
						at := rt.Now() + lq.cancel
						rt.GoHarness("canceller", "", func() {
							rt.SleepUntil(at)
							rt.Probe(PCtxCancelled)
							cancel()
							rt.Kick()
						})
					}
					lq.start = rt.Now()
					use := cl
					if cl2 != nil && lq.name%4 >= 2 {
						use = cl2
					}
					lq.resp, lq.err = use.Query(ctx, llName(lq.name), lq.qtype)
					lq.end = rt.Now()
					lq.done = true
				}))
			}
		}
	} else {
		for c := 0; c < nClients; c++ {
			rc := &llRawClient{idx: c, host: fmt.Sprintf("10.0.1.%d", c+1)}
			for q := 0; q < clN[c]; q++ {
				idc += 1 + uint16(pool[c][q][1])
				id := idc
				if edgeIDs && q == 0 && c < 2 {
					id = [...]uint16{0x0000, 0xFFFF}[c] // legal transaction ids like any other
					rt.Probe(PEdgeIDs)
				}
				rc.qs = append(rc.qs, &llQuery{name: pool[c][q][0] % nNames, id: id, carry: realServer && pool[c][q][1]%2 == 1})
			}
			rc.poison = realServer && chain == 3 && c == 0
			raws = append(raws, rc)
			tasks = append(tasks, rt.GoHarness(fmt.Sprintf("raw-client%d", c), rc.host, func() { llRaw(rc, group) }))
		}
	}

	if realServer && llJunk > 0 {
		// datagrams a responder has no business answering: responses (QR = 1) sent to the group, runts, queries cut
		// inside the question. The server may log or ignore them; the queries around them are answered as ever.
		rt.GoHarness("junk-sender", "10.0.1.240", func() {
			c, err := simnet.ListenUDP("udp4", &net.UDPAddr{})
			if err != nil {
				return
			}
			defer c.Close()
			for i := 0; i < llJunk; i++ {
				var b []byte
				switch (i + llJunkShape) % 3 {
				case 0:
					b = dnsResponse(uint16(0x7800+i), 0x8000, "ghost.corp", net.IP{192, 0, 2, 9})
				case 1:
					b = dnsQuery(uint16(0x7800+i), "ghost.corp")[:i%12]
				case 2:
					q := dnsQuery(uint16(0x7800+i), "ghost.corp")
					b = q[:12+(i*5)%(len(q)-12)]
				}
				c.WriteToUDP(b, group)
				rt.SleepUntil(rt.Now() + int64(1+i%3)*1e6)
			}
		})
		rt.Probe(PLLJunk)
	}

	// ---- stop / close at a chosen time
	var stopper, closer *rt.Task
	stoppedEarly := realServer && chain == 3 && !realClient
	var stopper2 *rt.Task
	closeCalled := &rt.Flag{} // set when the stopper is about to call Close (a state-triggered stopper may still be waiting for its moment)
	if realServer && stopMode >= 3 {
		if stopTwice && stopMode < 8 {
			// further callers close at the same moment from other tasks
			stopper2 = rt.GoHarness("stopper2", serverHost, func() {
				rt.SleepUntil(startT + stopAt)
				srv.Close()
			})
			rt.GoHarness("stopper3", serverHost, func() {
				rt.SleepUntil(startT + stopAt)
				srv.Close()
			})
		}
		stoppedEarly = true
		stopper = rt.GoHarness("stopper", serverHost, func() {
			switch stopMode {
			case 8:
				if rt.WaitState(&rt.StateCond{LiveSite: "processHandlers", LiveAtLeast: 1}, startT+5e9) {
					rt.Probe(PStopStateTriggered)
				}
			case 9:
				if rt.WaitState(&rt.StateCond{BlockedIn: "sync.Mutex.Lock"}, startT+5e9) {
					rt.Probe(PStopStateTriggered)
				}
			case 10:
				if rt.AfterPoints(stopAfterPts, startT+2e9) {
					rt.Probe(PStopAtStatement)
				}
			default:
				rt.SleepUntil(startT + stopAt)
			}
			if stopAt == 0 && stopMode < 8 {
				rt.Probe(PStopBeforeListen)
			}
			closeCalled.Set()
			noteStop()
			srv.Close()
			if stopTwice {
				rt.Probe(PStopTwice)
				srv.Close()
			}
		})
	}
	closedEarly := false
	if realClient && clientCloseMode >= 4 {
		closedEarly = true
		at := startT + [...]int64{0, 0, 0, 0, 1e6, 900e6}[clientCloseMode]
		closer = rt.GoHarness("client-closer", "10.0.1.1", func() {
			rt.SleepUntil(at)
			cl.Close()
			cl.Close()
			if cl2 != nil {
				cl2.Close()
			}
		})
		rt.GoHarness("client-closer2", "10.0.1.1", func() {
			rt.SleepUntil(at)
			cl.Close()
		})
	}
	for _, t := range tasks {
		if !joinWithin(t, 60e9) {
			return &hx.Violation{Class: "query_stuck", Key: sysName, Msg: "a client call did not return within 60 simulated seconds: " + t.Name + " is " + t.StateString()}
		}
	}

	// ---- quiet phase: once faults have stopped, a fresh query on the same client is answered (bounded liveness)
	w.Quiet = true
	var probeQ *llQuery
	if realClient && !closedEarly && !stoppedEarly {
		// a name no other query of this run uses, so that its wire id can be attributed
		pn := maxNames - 1
		known[pn] = true
		if nNames < maxNames {
			nNames = maxNames
		}
		{
			probeQ = &llQuery{name: pn}
			pt := rt.GoHarness("probe-query", "10.0.1.1", func() {
				rt.SleepUntil(rt.Now() + 3e9) // let stragglers (delayed duplicates) of earlier queries arrive first
				probeQ.start = rt.Now()
				probeQ.resp, probeQ.err = cl.Query(context.Background(), llName(pn), llmnr.TypeA)
				probeQ.end = rt.Now()
				probeQ.done = true
			})
			if !joinWithin(pt, 30e9) {
				return &hx.Violation{Class: "query_stuck", Key: sysName, Msg: "a Query issued after all faults had stopped did not return: " + pt.StateString()}
			}
		}
	}

	// ---- shutdown phase
	stopResponders = true
	if realServer {
		if stopper == nil {
			stopper = rt.GoHarness("stopper", serverHost, func() {
				noteStop()
				srv.Close()
			})
			if stopTwice {
				stopper2 = rt.GoHarness("stopper2", serverHost, func() { srv.Close() })
			}
		}
		if stopMode >= 3 {
			closeCalled.Wait(-1) // the bound runs from the call of Close, not from the end of the traffic
		}
		if !joinWithin(stopper, llStopBound) {
			return &hx.Violation{Class: "stop_blocked", Key: sysName, Msg: "Close() did not return; the calling task is " + stopper.StateString()}
		}
		if stopper2 != nil && !joinWithin(stopper2, llStopBound) {
			return &hx.Violation{Class: "stop_blocked", Key: sysName, Msg: "a second, concurrent Close() did not return; the calling task is " + stopper2.StateString()}
		}
		if !joinWithin(lsTask, llStopBound) {
			return &hx.Violation{Class: "serve_not_returned", Key: sysName,
				Msg: "ListenAndServe had not returned 2 simulated seconds after Close(); its task is " + lsTask.StateString()}
		}
		_ = lsErr // what ListenAndServe returns after Close() is not pinned down by the statement (nil today; an ErrServerClosed-style error would be just as fine)
	}
	if realClient {
		if closer == nil {
			closer = rt.GoHarness("client-closer", "10.0.1.1", func() {
				cl.Close()
				if cl2 != nil {
					cl2.Close()
				}
			})
			rt.GoHarness("client-closer2", "10.0.1.1", func() { cl.Close() })
		}
		if !joinWithin(closer, llStopBound) {
			return &hx.Violation{Class: "stop_blocked", Key: "llmnr.Client", Msg: "Client.Close() did not return; the calling task is " + closer.StateString()}
		}
	}
	for _, t := range respTasks {
		rt.Join(t, -1)
	}
	if v := shutdownCheck(sysName, llStopBound); v != nil {
		return v
	}
	noteSockets()

	// ---- oracles
	if canaryRan {
		return &hx.Violation{Class: "handler_chain", Key: sysName, Msg: "a handler ran that must not run: either after an earlier handler in the chain had returned false (short-circuit broken), or a handler that was only ever given to another, never started Server value"}
	}
	dups := w.Stats.Probes[rt.PDgramDup] > 0
	lossy := w.Stats.Probes[rt.PDgramDropped] > 0 || w.Stats.TimeSkips > 0 || w.Stats.Probes[rt.PDgramDelayed] > 0
	var sample []string
	for _, rc := range raws {
		byID := map[uint16]*llQuery{}
		for _, q := range rc.qs {
			byID[q.id] = q
		}
		seen := map[uint16]int{}
		for _, raw := range rc.got {
			m := dnsParse(raw)
			if !m.ok {
				return &hx.Violation{Class: "wrong_answer", Key: sysName, Msg: fmt.Sprintf("raw client %d received an unparseable datagram: % x", rc.idx, raw)}
			}
			q := byID[m.id]
			if q == nil {
				for _, o := range raws {
					for _, oq := range o.qs {
						if oq.id == m.id {
							return &hx.Violation{Class: "wrong_client", Key: sysName,
								Msg: fmt.Sprintf("client %d received a response with id %#04x, which belongs to a query of client %d", rc.idx, m.id, o.idx)}
						}
					}
				}
				return &hx.Violation{Class: "id_mismatch", Key: sysName, Msg: fmt.Sprintf("client %d received a response with id %#04x that no query carried", rc.idx, m.id)}
			}
			wantAnswers := 1
			if q.carry {
				wantAnswers = 2
			}
			if len(m.answers) == wantAnswers && q.carry && !m.answers[1].ip.Equal(markerOf(q.id)) {
				return &hx.Violation{Class: "wrong_answer", Key: sysName + "/carried-record",
					Msg: fmt.Sprintf("client %d: query %#04x carried the record %v; the handler for that query saw %v in its message (another request's bytes)", rc.idx, m.id, markerOf(q.id), m.answers[1].ip)}
			}
			if m.flags&0x8000 == 0 || len(m.answers) != wantAnswers || m.answers[0].name != llName(q.name) || !m.answers[0].ip.Equal(llIP(q.name)) {
				return &hx.Violation{Class: "wrong_answer", Key: sysName,
					Msg: fmt.Sprintf("client %d: the response with id %#04x (query for %s) carries %+v, flags %#04x", rc.idx, m.id, llName(q.name), m.answers, m.flags)}
			}
			seen[m.id]++
			if seen[m.id] > 1 && !dups {
				return &hx.Violation{Class: "duplicate_response", Key: sysName, Msg: fmt.Sprintf("client %d received %d responses for query %#04x although the network duplicated nothing", rc.idx, seen[m.id], m.id)}
			}
		}
		if realServer && !lossy && !stoppedEarly {
			for _, q := range rc.qs {
				if known[q.name] && seen[q.id] == 0 {
					return &hx.Violation{Class: "no_response", Key: sysName,
						Msg: fmt.Sprintf("client %d never got an answer for %s (id %#04x) although nothing was dropped or delayed and the server was not closed", rc.idx, llName(q.name), q.id)}
				}
			}
		}
		sample = append(sample, fmt.Sprintf("raw-client%d queries=%d responses=%d", rc.idx, len(rc.qs), len(rc.got)))
	}
	if realClient {
		// discard runs in which the (simulated) random source gave two calls the same id: the statement defines matching by id
		ids := map[uint16]string{}
		for _, q := range realQs {
			for _, id := range wireID[wireKey(llName(q.name), q.qtype)] {
				if other, ok := ids[id]; ok && other != wireKey(llName(q.name), q.qtype) {
					rt.Probe(PIDCollision)
					res.Discarded = "two concurrent queries drew the same transaction id"
					return nil
				}
				ids[id] = wireKey(llName(q.name), q.qtype)
			}
		}
		for _, q := range realQs {
			name := llName(q.name)
			if !q.done {
				continue
			}
			if limit := int64(cl.Timeout) + 1e9; q.end-q.start > limit && w.Stats.TimeSkips == 0 && !closedEarly {
				return &hx.Violation{Class: "client_mismatch", Key: "late_timeout",
					Msg: fmt.Sprintf("Query(%s) returned %.3fs after it was called; its timeout is %.3fs and no task was ever stalled (nagged by mismatching responses: %v)", name, float64(q.end-q.start)/1e9, cl.Timeout.Seconds(), nagged[name])}
			}
			sent := wireID[wireKey(name, q.qtype)]
			if q.err != nil {
				el := q.end - q.start
				switch {
				case strings.Contains(q.err.Error(), "timeout") || q.err == context.DeadlineExceeded:
					rt.Probe(PClientTimeout)
					limit := int64(cl.Timeout)
					if q.ctxTO > 0 && q.ctxTO < limit && q.err == context.DeadlineExceeded {
						limit = q.ctxTO
					}
					if el < limit {
						return &hx.Violation{Class: "client_mismatch", Key: "early_timeout",
							Msg: fmt.Sprintf("Query(%s) reported a timeout after %.3fs, before its %.3fs timeout", name, float64(el)/1e9, cl.Timeout.Seconds())}
					}
					if !lossy && !closedEarly && !stoppedEarly && known[q.name] && q.cancel == 0 && len(sent) > 0 && !nagged[name] {
						return &hx.Violation{Class: "client_mismatch", Key: "lost_response",
							Msg: fmt.Sprintf("Query(%s) timed out although a response with its id %#04x was delivered to the client socket in time", name, sent[0])}
					}
				case q.err == context.Canceled:
					if q.cancel == 0 {
						return &hx.Violation{Class: "client_mismatch", Key: "spurious_cancel", Msg: "Query returned context.Canceled although nobody cancelled its context"}
					}
				default:
					if !closedEarly {
						return &hx.Violation{Class: "client_mismatch", Key: "unexpected_error", Msg: fmt.Sprintf("Query(%s) failed: %v", name, q.err)}
					}
				}
				continue
			}
			r := q.resp
			// (judged only when no datagram was dropped: the id of a query whose datagram never reached the wire
			// observer is unknown, so a collision of two calls' random ids cannot be ruled out -- seen once in 5 M runs)
			if r != nil && len(r.Questions) > 0 && !(len(r.Answers) == 1 && r.Answers[0].Name == "stray.invalid") &&
				w.Stats.Probes[rt.PDgramDropped] == 0 &&
				r.Questions[0].Name == name && r.Questions[0].Type != q.qtype {
				// (a response about another NAME is left to the id-based checks below: two calls may have drawn the same id)
				return &hx.Violation{Class: "client_mismatch", Key: "wrong_question",
					Msg: fmt.Sprintf("Query(%s, type %d) was handed the response to another question: %s type %d (id %#04x)", name, q.qtype, r.Questions[0].Name, r.Questions[0].Type, r.ID)}
			}
			if len(sent) == 0 && r != nil {
				continue // the sniffer missed the query datagram (dropped): its id cannot be attributed
			}
			if r != nil && len(r.Answers) == 1 && r.Answers[0].Name == "stray.invalid" {
				continue // a stray whose made-up id happened to equal this query's id: delivering it is matching by id
			}
			okID := false
			for _, id := range sent {
				if r != nil && r.ID == id {
					okID = true
				}
			}
			if r == nil || !okID {
				got := "nil"
				if r != nil {
					got = fmt.Sprintf("%#04x", r.ID)
				}
				return &hx.Violation{Class: "client_mismatch", Key: "wrong_id",
					Msg: fmt.Sprintf("Query(%s) sent id(s) %#04x on the wire but was handed a message with id %s", name, sent, got)}
			}
			if !r.IsResponse() {
				return &hx.Violation{Class: "client_mismatch", Key: "not_a_response", Msg: fmt.Sprintf("Query(%s) was handed a message that is not a response (flags %#04x)", name, r.Flags)}
			}
			if len(r.Answers) == 1 && r.Answers[0].Name == "stray.invalid" {
				continue // a stray whose made-up id happened to equal this query's id: delivering it is matching by id
			}
			wantIP := llIP(q.name)
			if q.qtype == llmnr.TypeAAAA {
				wantIP = llIP6(q.name)
			}
			if len(r.Answers) != 1 || r.Answers[0].Name != name || r.Answers[0].Type != q.qtype || !net.IP(r.Answers[0].RData).Equal(wantIP) {
				return &hx.Violation{Class: "client_mismatch", Key: "wrong_content",
					Msg: fmt.Sprintf("Query(%s) was handed a response whose id matches but whose content is for something else: %+v", name, r.Answers)}
			}
		}
		if probeQ != nil && probeQ.done {
			name := llName(probeQ.name)
			ids := wireID[wireKey(name, llmnr.TypeA)]
			if probeQ.err != nil {
				return &hx.Violation{Class: "client_mismatch", Key: "wedged",
					Msg: fmt.Sprintf("after all faults had stopped, Query(%s) on the same client failed (%v) although the responder answered it: the client no longer delivers responses", name, probeQ.err)}
			}
			r := probeQ.resp
			last := uint16(0)
			if len(ids) > 0 {
				last = ids[len(ids)-1]
			}
			if r == nil || len(ids) == 0 || r.ID != last || !r.IsResponse() || len(r.Answers) != 1 || r.Answers[0].Name != name || !net.IP(r.Answers[0].RData).Equal(llIP(probeQ.name)) {
				got := "nil"
				if r != nil {
					got = fmt.Sprintf("id=%#04x flags=%#04x answers=%+v", r.ID, r.Flags, r.Answers)
				}
				return &hx.Violation{Class: "client_mismatch", Key: "stale_response",
					Msg: fmt.Sprintf("after all faults had stopped, Query(%s) sent id %#04x and was handed %s", name, last, got)}
			}
		}
		sample = append(sample, fmt.Sprintf("real client: %d concurrent Query calls", len(realQs)))
	}
	res.NonTrivial = true
	res.Sample = map[string]any{"system": sysName, "handler_chain": chain, "clients": sample, "stop_mode": stopMode, "client_close_mode": clientCloseMode}
	return nil
}

func llRaw(rc *llRawClient, groupAddr *net.UDPAddr) {
	c, err := simnet.ListenUDP("udp4", &net.UDPAddr{})
	if err != nil {
		return
	}
	defer c.Close()
	for i, q := range rc.qs {
		if i > 0 && q.id%3 == 0 {
			rt.SleepUntil(rt.Now() + 2e6)
		}
		if q.carry {
			c.WriteToUDP(dnsQueryCarrying(q.id, llName(q.name), markerOf(q.id)), groupAddr)
		} else {
			c.WriteToUDP(dnsQuery(q.id, llName(q.name)), groupAddr)
		}
	}
	if rc.poison {
		c.WriteToUDP(dnsQuery(0x0666, poisonName), groupAddr)
	}
	deadline := rt.Now() + 4e9
	buf := make([]byte, 2048)
	for rt.Now() < deadline {
		c.SetReadDeadline(time.Unix(rt.EpochUnix, 0).Add(time.Duration(deadline)))
		n, _, err := c.ReadFromUDP(buf)
		if err != nil {
			break
		}
		rc.got = append(rc.got, append([]byte(nil), buf[:n]...))
		if len(rc.got) >= len(rc.qs) {
			deadline = min64(deadline, rt.Now()+300e6)
		}
	}
}

func min64(a, b int64) int64 {
	if a < b {
		return a
	}
	return b
}

// ---------------------------------------------------------------- NBNS name challenger (client side of nbtns)

// runChallenger: nbtns.NameChallenger.ChallengeOwnership against a harness node on port 137 that answers
// with the right id, a wrong id first, a name error, or not at all.
func runChallenger(w *rt.World, res *hx.Result) *hx.Violation {
	mode := hx.G(7) // 6: the owner ignores the first challenge and confirms the retransmission; 0 owner answers, 1 wrong id first then right, 2 name error, 3 silent, 4 other owner, 5 another host answers "released" with the right id before the owner confirms
	if hx.G(2) == 0 {
		w.Quiet = true // half of the runs: a faultless network, where the exact result is required
	}
	bound := &rt.Flag{}
	table := nbtns.NewNetBIOSNameServer(true)
	ch := nbtns.NewNameChallenger(table, nbtns.NewPacketHandler(table))
	owner := net.IP{10, 0, 3, 7}
	stop := false
	seenChallenges := 0
	node := rt.GoHarness("node", "10.0.3.7", func() {
		c, err := simnet.ListenUDP("udp4", &net.UDPAddr{Port: 137})
		bound.Set()
		if err != nil {
			return
		}
		defer c.Close()
		buf := make([]byte, 1024)
		for !stop {
			c.SetReadDeadline(time.Unix(rt.EpochUnix, 0).Add(time.Duration(rt.Now() + 500e6)))
			n, src, err := c.ReadFromUDP(buf)
			if err != nil {
				continue
			}
			if n < 12 {
				continue
			}
			id := binary.BigEndian.Uint16(buf)
			mk := func(id uint16, rcode uint16, ip net.IP) []byte {
				p := &nbtns.NBTNSPacket{Header: nbtns.NBTNSHeader{TransactionID: id, Flags: 0x8400 | rcode}}
				if ip != nil {
					p.Answers = []nbtns.NBTNSResourceRecord{{Name: &nbtns.NetBIOSName{Name: "CHALLENGED"}, Type: 0x20, Class: 1, TTL: 60, RDLength: 4, RData: ip}}
					p.Header.Answers = 1
				}
				b, _ := p.Marshal()
				return b
			}
			seenChallenges++
			switch mode {
			case 6:
				if seenChallenges >= 2 {
					c.WriteToUDP(mk(id, 0, owner), src) // confirms, with the id this datagram carries
				}
			case 5:
				// the forged negative answer leaves from another host's socket; the challenge socket is connected
				// to the owner, so it belongs to no exchange of the challenger
				spoof := mk(id, 3, nil)
				dst := &net.UDPAddr{IP: src.IP, Port: src.Port}
				sp := rt.GoHarness("spoofer", "10.0.3.9", func() {
					sc, err := simnet.ListenUDP("udp4", &net.UDPAddr{Port: 137})
					if err != nil {
						return
					}
					sc.WriteToUDP(spoof, dst)
					sc.Close()
				})
				rt.Join(sp, -1)
				rt.SleepUntil(rt.Now() + 1e6)
				c.WriteToUDP(mk(id, 0, owner), src)
			case 0:
				c.WriteToUDP(mk(id, 0, owner), src)
			case 1:
				c.WriteToUDP(mk(id^0x0F0F, 0, owner), src)
				c.WriteToUDP(mk(id, 0, owner), src)
			case 2:
				c.WriteToUDP(mk(id, 3, nil), src)
			case 4:
				c.WriteToUDP(mk(id, 0, net.IP{10, 0, 3, 8}), src)
			}
		}
	})
	var got bool
	var err error
	bound.Wait(-1)
	quietRun := w.Quiet
	t0 := rt.Now()
	caller := rt.GoHarness("challenger", "10.0.1.1", func() { got, err = ch.ChallengeOwnership("CHALLENGED", owner) })
	if !joinWithin(caller, 30e9) {
		return &hx.Violation{Class: "query_stuck", Key: "nbtns.NameChallenger", Msg: "ChallengeOwnership did not return within 30 simulated seconds: " + caller.StateString()}
	}
	el := rt.Now() - t0
	stop = true
	w.Quiet = true
	rt.Join(node, -1)
	rt.Probe(PChallenge)
	lossy := w.Stats.Probes[rt.PDgramDropped] > 0 || w.Stats.TimeSkips > 0 || w.Stats.Probes[rt.PDgramDelayed] > 0 || w.Stats.Probes[rt.PDgramDup] > 0
	res.NonTrivial = true
	res.Sample = map[string]any{"system": "nbtns.NameChallenger", "mode": mode, "result": got, "elapsed_s": float64(el) / 1e9}
	if err != nil && w.Stats.TimeSkips > 0 {
		// a task stalled for seconds between arming its I/O deadline and the send legitimately gets "i/o timeout"
		res.Discarded = "challenger stalled across its own I/O deadline"
		return nil
	}
	if err != nil {
		return &hx.Violation{Class: "client_mismatch", Key: "challenger_error", Msg: err.Error()}
	}
	if lossy || !quietRun {
		// under loss / reordering the only hard rule: ownership is never confirmed by a node that did not confirm it
		if got && (mode == 2 || mode == 3 || mode == 4) {
			return &hx.Violation{Class: "client_mismatch", Key: "challenger_false_positive", Msg: fmt.Sprintf("ChallengeOwnership returned true in mode %d", mode)}
		}
		return nil
	}
	want := mode == 0 || mode == 1 || mode == 5 || mode == 6
	if got != want {
		return &hx.Violation{Class: "client_mismatch", Key: "challenger_result",
			Msg: fmt.Sprintf("ChallengeOwnership returned %v, expected %v (node behaviour %d: 0 confirms, 6 confirms the second challenge only, 1 wrong id then confirms, 2 name error, 3 silent, 4 other owner, 5 a third host says released with the right id, then the owner confirms)", got, want, mode)}
	}
	return nil
}
