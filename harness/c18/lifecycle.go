package c18

import (
	"encoding/binary"
	"fmt"
	"net"
	"time"

	"verif.local/harness/hx"
	simnet "verif.local/sim/net"
	"verif.local/sim/rt"
)

// runLifecycle: short Start / Stop cycles of the NBNS servers with next to no traffic. The big scenarios stop
// the servers while clients keep sending, and every datagram that arrives wakes a receive loop, so a loop that
// misses the stop signal still gets another look at it. Here nothing arrives after the Stop: the receive loops
// are wherever the scheduler left them (not started yet, between their quit check and the read, blocked in the
// read, just back from spawning a handler) when Stop is called, and Stop alone has to get them out.
// A stopped server has released its port: the next cycle starts a new server on the same address.
func runLifecycle(w *rt.World, res *hx.Result) *hx.Violation {
	kind := 1 + hx.G(2)
	sysName := "nbtns.Server"
	if kind == 2 {
		sysName = "nbtns.UDPServer+TCPServer"
	}
	cycles := 1 + hx.G(3)
	var plan [3]struct{ nReq, tcp, idleConn, settle, inflight, after int }
	for i := range plan {
		plan[i].nReq = hx.G(3)
		plan[i].tcp = hx.G(2)
		plan[i].idleConn = hx.G(3)
		plan[i].settle = hx.G(7)   // 0..3: timed; 4..6: after an exact number of SUT statements
		plan[i].inflight = hx.G(3) // requests sent without waiting for their answers before the Stop is placed
		plan[i].after = 1 + hx.G(40)
		if hx.G(3) == 0 {
			plan[i].after = 1 + hx.G(600) // a whole handler runs ~350 statements
		}
	}
	answered := 0
	flyBad := ""
	for c := 0; c < cycles; c++ {
		sys := startNB(kind)
		if sys.err != nil {
			if c == 0 {
				return &hx.Violation{Class: "start_failed", Key: sysName, Msg: sys.err.Error()}
			}
			return &hx.Violation{Class: "leak", Key: sysName + "/port-not-released",
				Msg: fmt.Sprintf("cycle %d: after Stop() of the previous server had returned, starting a new one on the same address failed: %v", c, sys.err)}
		}
		p := plan[c]
		for k := 0; k < p.nReq; k++ {
			id := uint16(0x5100 + c*16 + k)
			req := buildRequest(id, 0, 0, []string{"NOBODY"}, "", nil, 0, false)
			var resp []byte
			if kind == 2 && p.tcp == 1 {
				resp = tcpExchange(req, 3*time.Second)
			} else {
				resp = udpExchange(req, 3*time.Second)
			}
			clean := w.Stats.Probes[rt.PDgramDropped] == 0 && w.Stats.Probes[rt.PDgramDelayed] == 0 && w.Stats.TimeSkips == 0
			if resp == nil && clean {
				return &hx.Violation{Class: "no_response", Key: sysName + "/lifecycle",
					Msg: fmt.Sprintf("cycle %d: a freshly started server did not answer a single name query within 3 s", c)}
			}
			if resp != nil {
				if len(resp) < 2 || binary.BigEndian.Uint16(resp) != id {
					return &hx.Violation{Class: "id_mismatch", Key: sysName + "/lifecycle",
						Msg: fmt.Sprintf("cycle %d: the response to the only request in flight (id %#04x) is %s", c, id, describeResp(resp))}
				}
				answered++
			}
		}
		var idle net.Conn
		if kind == 2 && p.idleConn == 0 {
			// a connection that never sends anything is open when Stop is called
			if cn, err := simnet.Dial("tcp", serverHost+":137"); err == nil {
				idle = cn
			}
		}
		var flyer *rt.Task
		if p.inflight > 0 {
			base := uint16(0x5200 + c*16)
			nfly := p.inflight
			flyer = rt.GoHarness("in-flight-client", "10.0.1.7", func() {
				cn, err := simnet.ListenUDP("udp4", &net.UDPAddr{})
				if err != nil {
					return
				}
				defer cn.Close()
				for k := 0; k < nfly; k++ {
					cn.WriteToUDP(buildRequest(base+uint16(k), 0, 0, []string{"NOBODY"}, "", nil, 0, false), &net.UDPAddr{IP: serverIP, Port: 137})
				}
				cn.SetReadDeadline(simNow().Add(2 * time.Second))
				buf := make([]byte, 2048)
				for {
					n, _, err := cn.ReadFromUDP(buf)
					if err != nil {
						return
					}
					if n < 2 || binary.BigEndian.Uint16(buf) < base || binary.BigEndian.Uint16(buf) >= base+uint16(nfly) {
						flyBad = describeResp(append([]byte(nil), buf[:n]...))
					}
				}
			})
			rt.Probe(PLifecycleInFlight)
		}
		stopCalled := &rt.Flag{}
		after := 0
		if p.settle >= 4 {
			after = p.after
		}
		switch p.settle {
		case 1:
			rt.SleepUntil(rt.Now() + 1e6)
		case 2:
			rt.SleepUntil(rt.Now() + 4e9) // within a read timeout
		case 3:
			rt.SleepUntil(rt.Now() + 11e9) // a couple of read timeouts have come and gone
		}
		w.Quiet = true // from here on time passes only when everybody is blocked; preemption goes on
		stopper := rt.GoHarness("stopper", serverHost, func() {
			if after > 0 && rt.AfterPoints(after, rt.Now()+1e9) {
				rt.Probe(PStopAtStatement)
			}
			stopCalled.Set()
			noteStop()
			sys.stop()
		})
		stopCalled.Wait(-1) // the bound runs from the call of Stop
		ok := joinWithin(stopper, nbStopBound)
		if !ok {
			return &hx.Violation{Class: "stop_blocked", Key: sysName + "/lifecycle",
				Msg: fmt.Sprintf("cycle %d (%d requests before, no traffic after): Stop() had not returned %.0f simulated seconds after it was called; the calling task is %s", c, p.nReq, float64(nbStopBound)/1e9, stopper.StateString())}
		}
		if v := shutdownCheck(sysName, nbStopBound); v != nil {
			return v
		}
		if idle != nil {
			idle.Close()
		}
		if flyer != nil {
			rt.Join(flyer, -1)
			if flyBad != "" {
				return &hx.Violation{Class: "id_mismatch", Key: sysName + "/lifecycle",
					Msg: fmt.Sprintf("cycle %d: a client with %d requests in flight when the server was stopped received %s", c, p.inflight, flyBad)}
			}
		}
		w.Quiet = false
		rt.Probe(PLifecycleCycle)
	}
	noteSockets()
	res.NonTrivial = true
	res.Sample = map[string]any{"system": sysName, "cycles": cycles, "answered": answered}
	return nil
}
