package c18

import (
	"bytes"
	"encoding/binary"
	"fmt"
	"io"
	"net"
	"strings"
	"time"

	"github.com/TheManticoreProject/Manticore/network/netbios/nbtns"

	"verif.local/harness/hx"
	simnet "verif.local/sim/net"
	"verif.local/sim/rt"
)

const serverHost = "10.0.0.10"

var serverIP = net.IP{10, 0, 0, 10}

// ---------------------------------------------------------------- NBNS packets

// buildRequest encodes a request with the library's own Marshal (the library's NBNS wire format is
// self-consistent but not RFC 1002; which one is right is C10's business, not C18's).
func buildRequest(id uint16, opcode int, flagsExtra uint16, qnames []string, recName string, recIP net.IP, recTTL uint32, additional bool) []byte {
	p := &nbtns.NBTNSPacket{Header: nbtns.NBTNSHeader{TransactionID: id, Flags: uint16(opcode)<<11 | flagsExtra}}
	for _, q := range qnames {
		p.Questions = append(p.Questions, nbtns.NBTNSQuestion{Name: &nbtns.NetBIOSName{Name: q}, Type: 0x20, Class: 1})
	}
	p.Header.Questions = uint16(len(p.Questions))
	if recName != "" {
		rr := nbtns.NBTNSResourceRecord{Name: &nbtns.NetBIOSName{Name: recName}, Type: 0x20, Class: 1, TTL: recTTL, RDLength: uint16(len(recIP)), RData: recIP}
		if additional {
			p.Additional = []nbtns.NBTNSResourceRecord{rr}
			p.Header.Additional = 1
		} else {
			p.Answers = []nbtns.NBTNSResourceRecord{rr}
			p.Header.Answers = 1
		}
	}
	b, err := p.Marshal()
	if err != nil {
		panic("harness: cannot marshal request: " + err.Error())
	}
	return b
}

// buildVariedQuery builds a name query of an unusual but well-formed shape (shape 0 = plain): no question at
// all, a scoped name, the node-status question type, broadcast / recursion bits, a stray additional record. The
// expected answer to each shape is learnt from the quiescent server like any other request.
func buildVariedQuery(id uint16, shape int, qnames []string, extraBits uint16) []byte {
	p := &nbtns.NBTNSPacket{Header: nbtns.NBTNSHeader{TransactionID: id, Flags: extraBits}}
	for i, q := range qnames {
		nq := nbtns.NBTNSQuestion{Name: &nbtns.NetBIOSName{Name: q}, Type: 0x20, Class: 1}
		switch shape {
		case 2:
			if i == 0 {
				nq.Name.ScopeID = "corp.example"
			}
		case 3:
			nq.Type = 0x21
		}
		p.Questions = append(p.Questions, nq)
	}
	switch shape {
	case 1:
		p.Questions = nil // a query with QDCOUNT 0
	case 4:
		p.Header.Flags |= 0x0110 // recursion desired + broadcast
	case 5:
		p.Additional = []nbtns.NBTNSResourceRecord{{Name: &nbtns.NetBIOSName{Name: "STRAYREC"}, Type: 0x20, Class: 1, TTL: 1, RDLength: 4, RData: []byte{192, 0, 2, 7}}}
		p.Header.Additional = 1
	}
	p.Header.Questions = uint16(len(p.Questions))
	b, err := p.Marshal()
	if err != nil {
		panic("harness: cannot marshal request: " + err.Error())
	}
	return b
}

// buildExactSize builds a well-formed name query of exactly size bytes: as many questions about name as fit, the
// first of them with a scope id that makes up the difference (nil if that cannot be done).
func buildExactSize(id uint16, size int, name string) []byte {
	mk := func(nq int, scope string) []byte {
		p := &nbtns.NBTNSPacket{Header: nbtns.NBTNSHeader{TransactionID: id, Questions: uint16(nq)}}
		for i := 0; i < nq; i++ {
			q := nbtns.NBTNSQuestion{Name: &nbtns.NetBIOSName{Name: name}, Type: 0x20, Class: 1}
			if i == 0 {
				q.Name.ScopeID = scope
			}
			p.Questions = append(p.Questions, q)
		}
		b, err := p.Marshal()
		if err != nil {
			return nil
		}
		return b
	}
	b1, b2 := mk(1, ""), mk(2, "")
	if b1 == nil || b2 == nil || len(b2) <= len(b1) || size < len(b1)+2 {
		return nil
	}
	nq := 1 + (size-2-len(b1))/(len(b2)-len(b1))
	base := mk(nq, "")
	if base == nil {
		return nil
	}
	deficit := size - len(base)
	if deficit < 2 || deficit > 64 {
		return nil
	}
	scope := make([]byte, deficit-1)
	for i := range scope {
		scope[i] = byte('a' + i%26)
	}
	b := mk(nq, string(scope))
	if len(b) != size {
		return nil
	}
	return b
}

type nbResp struct {
	id      uint16
	flags   uint16
	rcode   int
	ancount int
	answers []nbAnswer
	parsed  bool
}

type nbAnswer struct {
	name string
	ip   net.IP
}

// parseResponse is the harness's own tolerant reader. The pinned servers copy the request's QDCOUNT into the
// response but carry no question; a corrected server might echo the question(s) or send QDCOUNT 0. Both layouts
// are tried: questions present as announced, or records right after the header.
func parseResponse(b []byte) nbResp {
	if len(b) >= 12 {
		qd := int(binary.BigEndian.Uint16(b[4:]))
		if r, ok := parseResponseAt(b, qd); ok {
			return r
		}
	}
	r, _ := parseResponseAt(b, 0)
	return r
}

func parseResponseAt(b []byte, questions int) (nbResp, bool) {
	var r nbResp
	if len(b) < 12 {
		return r, false
	}
	r.id = binary.BigEndian.Uint16(b[0:])
	r.flags = binary.BigEndian.Uint16(b[2:])
	r.rcode = int(r.flags & 0xF)
	r.ancount = int(binary.BigEndian.Uint16(b[6:]))
	off := 12
	for i := 0; i < questions; i++ {
		if off >= len(b) {
			return r, false
		}
		nl := int(b[off])
		off += 1 + nl + 4
		if off > len(b) || nl < 32 {
			return r, false
		}
	}
	for i := 0; i < r.ancount; i++ {
		if off >= len(b) {
			return r, false
		}
		nl := int(b[off])
		off++
		if off+nl+10 > len(b) || nl < 32 {
			return r, false
		}
		enc := b[off : off+32]
		off += nl
		dec := make([]byte, 16)
		for j := 0; j < 16; j++ {
			dec[j] = (enc[2*j]-'A')<<4 | (enc[2*j+1] - 'A')
		}
		rdl := int(binary.BigEndian.Uint16(b[off+8:]))
		off += 10
		if off+rdl > len(b) {
			return r, false
		}
		r.answers = append(r.answers, nbAnswer{name: strings.TrimRight(string(dec), " "), ip: net.IP(append([]byte(nil), b[off:off+rdl]...))})
		off += rdl
	}
	r.parsed = off == len(b)
	return r, r.parsed
}

// ---------------------------------------------------------------- systems under test

type nbSystem struct {
	kind  int // 1 = nbtns.Server, 2 = UDPServer+TCPServer
	s1    *nbtns.Server
	table *nbtns.NetBIOSNameServer
	udp   *nbtns.UDPServer
	tcp   *nbtns.TCPServer
	err   error
}

func startNB(kind int) *nbSystem {
	sys := &nbSystem{kind: kind}
	secured := hx.G(2) == 1
	starter := rt.GoHarness("server-start", serverHost, func() {
		switch kind {
		case 1:
			s, err := nbtns.NewServer(":137", secured)
			if err != nil {
				sys.err = err
				return
			}
			sys.s1 = s
			sys.err = s.Start()
		case 2:
			sys.table = nbtns.NewNetBIOSNameServer(secured)
			u, err := nbtns.NewUDPServer(":137", sys.table)
			if err != nil {
				sys.err = err
				return
			}
			t, err := nbtns.NewTCPServer(":137", sys.table)
			if err != nil {
				sys.err = err
				return
			}
			sys.udp, sys.tcp = u, t
			if sys.err = u.Start(); sys.err != nil {
				return
			}
			sys.err = t.Start()
		}
	})
	rt.Join(starter, -1)
	return sys
}

func (sys *nbSystem) stop() {
	switch sys.kind {
	case 1:
		sys.s1.Stop()
	case 2:
		sys.udp.Stop()
		sys.tcp.Stop()
	}
}

// udpExchange sends one datagram from a fresh socket on the calling task's host and waits for one response.
func udpExchange(req []byte, wait time.Duration) []byte {
	c, err := simnet.ListenUDP("udp4", &net.UDPAddr{})
	if err != nil {
		return nil
	}
	defer c.Close()
	if _, err := c.WriteToUDP(req, &net.UDPAddr{IP: serverIP, Port: 137}); err != nil {
		return nil
	}
	c.SetReadDeadline(simNow().Add(wait))
	buf := make([]byte, 2048)
	n, _, err := c.ReadFromUDP(buf)
	if err != nil {
		return nil
	}
	return buf[:n]
}

func simNow() time.Time { return time.Unix(rt.EpochUnix, 0).UTC().Add(time.Duration(rt.Now())) }

// tcpExchange sends one framed request over a fresh connection and reads one framed response.
func tcpExchange(req []byte, wait time.Duration) []byte {
	c, err := simnet.Dial("tcp", serverHost+":137")
	if err != nil {
		return nil
	}
	defer c.Close()
	c.SetDeadline(simNow().Add(wait))
	fr := make([]byte, 2, 2+len(req))
	binary.BigEndian.PutUint16(fr, uint16(len(req)))
	if _, err := c.Write(append(fr, req...)); err != nil {
		return nil
	}
	return readFrame(c)
}

func readFrame(c net.Conn) []byte {
	var l [2]byte
	if _, err := io.ReadFull(c, l[:]); err != nil {
		return nil
	}
	b := make([]byte, binary.BigEndian.Uint16(l[:]))
	if _, err := io.ReadFull(c, b); err != nil {
		return nil
	}
	return b
}

// ---------------------------------------------------------------- opcode routing enumeration

// EnumSize: 3 transports x 16 opcodes x 2 dialects x {request, response bit set}.
func EnumSize() int64 { return 3 * 16 * 2 * 2 }

var transportNames = [...]string{"Server/udp", "UDPServer", "TCPServer"}

type probeFacts struct {
	notImpl, answers, registered, released, refreshed, srvErrP1, refreshObservable bool
	rcodes                                                                         [2]int
	responded                                                                      [2]bool
}

func (f probeFacts) class() string {
	var s []string
	if f.answers {
		s = append(s, "query")
	}
	if f.registered {
		s = append(s, "registration")
	}
	if f.released {
		s = append(s, "release")
	}
	if f.refreshed {
		s = append(s, "refresh")
	}
	if len(s) == 0 {
		if f.notImpl {
			return "not-implemented"
		}
		if f.srvErrP1 {
			return "release-or-refresh(no table effect seen)"
		}
		return "none"
	}
	return strings.Join(s, "+")
}

// runOpcodeProbe: index -> (transport, opcode, dialect); two probes on fresh servers.
func runOpcodeProbe(index int64) (desc string, bad *hx.Violation) {
	tr := int(index % 3)
	opcode := int(index / 3 % 16)
	additional := index/48%2 == 1
	respBit := index/96%2 == 1 // the packet has R = 1: it is a response, and a name server has no handler for responses
	rb := uint16(0)
	if respBit {
		rb = 0x8000
	}
	desc = fmt.Sprintf("transport=%s opcode=%d record-in=%s R=%d", transportNames[tr], opcode, map[bool]string{false: "answer-section", true: "additional-section"}[additional], rb>>15)
	kind := 2
	if tr == 0 {
		kind = 1
	}
	exchange := udpExchange
	if tr == 2 {
		exchange = tcpExchange
	}
	nameX, nameY := "PROBEX", "PROBEY"
	ipA, ipB := net.IP{10, 1, 0, 1}, net.IP{10, 1, 0, 2}
	var facts probeFacts
	facts.refreshObservable = kind == 2

	for probe := 0; probe < 2; probe++ {
		sys := startNB(kind)
		if sys.err != nil {
			return desc, &hx.Violation{Class: "start_failed", Key: transportNames[tr], Msg: sys.err.Error()}
		}
		client := rt.GoHarness("prober", "10.0.1.1", func() {
			// X is registered to A with a 20 s TTL at t0
			if kind == 2 {
				sys.table.RegisterName(nameX, nbtns.Unique, ipA, 20*time.Second)
			} else {
				exchange(buildRequest(0x0101, 5, 0, nil, nameX, ipA, 20, false), 3*time.Second)
			}
			present := func(n string) (bool, net.IP) {
				if kind == 2 {
					o, _, err := sys.table.QueryName(n)
					if err != nil || len(o) == 0 {
						return false, nil
					}
					return true, o[0]
				}
				r := parseResponse(exchange(buildRequest(0x0102, 0, 0, []string{n}, "", nil, 0, false), 3*time.Second))
				if r.rcode == 0 && len(r.answers) > 0 {
					return true, r.answers[0].ip
				}
				return false, nil
			}
			if ok, ip := present(nameX); !ok || !ip.Equal(ipA) {
				if opcode == 5 || opcode == 0 {
					// on the private-table server the setup itself needs registration (5) and query (0) to work
					facts.responded[probe] = false
				}
				if kind == 1 {
					bad = &hx.Violation{Class: "opcode_route", Key: fmt.Sprintf("%s/setup", transportNames[tr]),
						Msg: "a registration request (opcode 5) followed by a name query (opcode 0) does not make the name resolvable on nbtns.Server: registration or query is not routed to its handler"}
					return
				}
			}
			rt.JumpClock(int64(15 * time.Second)) // t0+15
			var req []byte
			if probe == 0 {
				req = buildRequest(0x0777, opcode, rb, []string{nameX}, nameY, ipB, 3600, additional)
			} else {
				req = buildRequest(0x0778, opcode, rb, []string{nameX}, nameX, ipA, 20, additional)
			}
			raw := exchange(req, 3*time.Second)
			if raw != nil {
				facts.responded[probe] = true
				r := parseResponse(raw)
				facts.rcodes[probe] = r.rcode
				if r.rcode == int(nbtns.RcodeNotImpl) {
					facts.notImpl = true
				}
				if r.rcode == 0 && len(r.answers) > 0 {
					facts.answers = true
				}
				if probe == 0 && r.rcode == int(nbtns.RcodeServerError) {
					facts.srvErrP1 = true
				}
			}
			if probe == 0 {
				if ok, _ := present(nameY); ok {
					facts.registered = true
				}
			} else {
				if ok, _ := present(nameX); !ok {
					facts.released = true
				} else if kind == 2 {
					rt.JumpClock(int64(10 * time.Second)) // t0+25: X survives the sweep only if its TTL was restarted at t0+15
					sys.table.CleanExpiredNames()
					if ok, _ := present(nameX); ok {
						facts.refreshed = true
					}
				}
			}
		})
		rt.Join(client, -1)
		stopper := rt.GoHarness("stopper", serverHost, func() { sys.stop() })
		rt.Join(stopper, -1)
		if bad != nil {
			return desc, bad
		}
	}

	obs := facts.class()
	exp := ""
	okv := false
	none := !facts.answers && !facts.registered && !facts.released && !facts.refreshed
	switch opcode {
	case 0:
		exp = "query"
		okv = facts.answers && !facts.registered && !facts.released && !facts.refreshed && !facts.notImpl
	case 5:
		exp = "registration"
		okv = (facts.registered || additional) && !facts.answers && !facts.released && !facts.notImpl
	case 6:
		exp = "release"
		okv = (facts.released || additional) && !facts.answers && !facts.registered && !facts.notImpl
	case 8:
		exp = "refresh"
		seen := facts.srvErrP1 && (facts.refreshed || !facts.refreshObservable)
		okv = (seen || additional) && !facts.answers && !facts.registered && !facts.released && !facts.notImpl
	case 9:
		exp = "refresh or not-implemented"
		okv = !facts.answers && !facts.registered && !facts.released
	case 15:
		exp = "registration or not-implemented"
		okv = !facts.answers && !facts.released && !facts.refreshed
	default:
		exp = "no handler (no table effect, no positive answer)"
		okv = none && !facts.srvErrP1
	}
	if respBit {
		exp = "nothing: a packet with R = 1 is a response, not a request (no table effect, no positive answer)"
		okv = none && !facts.srvErrP1
	} else if additional && (opcode == 5 || opcode == 6 || opcode == 8) {
		// a handler's effect must show in at least one dialect (checked in the answer-section run);
		// in this dialect only the absence of another handler's effect is checked
		if none {
			okv = !facts.notImpl
		}
	}
	if !okv {
		return desc, &hx.Violation{Class: "opcode_route", Key: fmt.Sprintf("%s/op%d:%s", transportNames[tr], opcode, obs),
			Msg: fmt.Sprintf("%s: observed handler effect %q, RFC 1002 section 4.2.1.1 assigns opcode %d to: %s\n  facts: %+v", desc, obs, opcode, exp, facts)}
	}
	return desc + " observed=" + obs, nil
}

// ---------------------------------------------------------------- random NBNS workload

type nbReq struct {
	id         uint16
	bytes      []byte
	sig        string // request bytes without the id: identical sig => identical expected response
	tcp        bool
	churn      bool // asks about the group that is being churned
	mustAnswer bool // a well-formed query that fits the receive buffer: the quiescent server answers it
}

type nbClient struct {
	idx            int
	host           string
	reqs           []*nbReq
	got            [][]byte // datagrams / frames received, raw
	tcp            bool
	abortAt        int // tcp: abort after this many bytes written (-1 none)
	runtAt         int // tcp: a frame with length prefix runtLen (1..11) goes out before this request (-1 none)
	runtLen        int
	splitWait      int  // tcp: > 0: the first request and this many bytes of the second frame go out first; the rest after answer #1
	heldBack       bool // ... and that answer did not come
	gaps           []int
	sentAll        bool
	deadline       bool
	linger         bool // tcp: keep the connection open, idle, until the shutdown has been judged
	silent         bool // tcp: connect and never send a byte
	paced          bool // tcp: one request every 12 s, waiting for each response
	noread         bool // tcp: sends everything, never reads, stays connected
	stall          bool // tcp: one byte, 31 s of silence, then the rest
	silentOpen     bool
	closedByServer bool
	ioDone         *rt.Flag
	release        *rt.Flag
	trigger        *rt.Flag // set when this client has sent its triggerAt-th request (progress-triggered Stop)
	triggerAt      int
}

func nameOf(i int) string { return fmt.Sprintf("HOST%03dQ", i) }
func ipOf(i int) net.IP   { return net.IP{10, 2, byte(i >> 8), byte(i)} }

func stripID(b []byte) string {
	if len(b) < 2 {
		return string(b)
	}
	return string(b[2:])
}

func equalModID(a, b []byte) bool {
	return len(a) >= 2 && len(b) >= 2 && bytes.Equal(a[2:], b[2:])
}
