package c18

import "verif.local/harness/hx"

var ProbeNames = map[int]string{}

func Run(seed uint64, index int64, o hx.Opts) *hx.Result {
	return &hx.Result{Property: "c18", Index: index, Seed: seed, Discarded: "not implemented"}
}

func EnumSize() int64 { return 0 }
