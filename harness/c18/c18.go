// Package c18 simulates the name-service servers and clients (nbtns.Server,
// nbtns.UDPServer, nbtns.TCPServer, llmnr.Server, llmnr.Client) on simulated
// hosts: concurrent clients, UDP loss/duplication/reordering, TCP
// segmentation and aborts, stalled tasks, clock jumps over deadlines, and
// Stop/Close at a chosen moment. Oracles: request isolation (every response
// belongs to exactly one request of that client and carries its answer),
// RFC 1002 opcode routing (all 16 opcodes), LLMNR client id matching, prompt
// and complete shutdown, and the race detector.
package c18

import (
	"fmt"
	"sort"

	"verif.local/harness/hx"
	simnet "verif.local/sim/net"
	"verif.local/sim/rt"
)

const (
	PTwoHandlersAlive = rt.PUser + iota
	PStopWhileReadBlocked
	PStopWhileHandlerAlive
	PStopWhileTCPConn
	PStopBeforeListen
	PStopTwice
	PRespAfterTimeout
	PLoopRanAhead
	PTCPAbortMidFrame
	PTCPPipelined
	PStrayDelivered
	PCtxCancelled
	PClientTimeout
	PBigRequest
	PSocketLeftOpen
	PIDCollision
	PChallenge
	PStopStateTriggered
	PStopWhileChanBlocked
	PFlood
	PTCPStalledPrefix
	PJunk
	PLifecycleCycle
	PLifecycleInFlight
	PStopAtStatement
	PTwinIDs
	PChurnNoise
	PCtxDeadline
	PDefenders
	PLLJunk
	PClaimers
	PReqPairPlaced
	PTCPRunt
	PExactSize
	PNagging
	PEdgeIDs
	PTCPSplitWait
)

var ProbeNames = map[int]string{
	PTwoHandlersAlive:      "two_handler_tasks_alive_at_once",
	PStopWhileReadBlocked:  "stop_while_receive_loop_blocked_in_read",
	PStopWhileHandlerAlive: "stop_while_handler_task_alive",
	PStopWhileTCPConn:      "stop_while_tcp_connection_open",
	PStopBeforeListen:      "close_called_at_time_zero_concurrently_with_listen_and_serve",
	PStopTwice:             "close_called_twice",
	PRespAfterTimeout:      "response_arrived_after_query_timed_out",
	PLoopRanAhead:          "receive_loop_read_again_while_previous_handler_had_not_finished",
	PTCPAbortMidFrame:      "tcp_client_aborted_mid_frame",
	PTCPPipelined:          "tcp_requests_pipelined",
	PStrayDelivered:        "stray_datagram_sent_to_client",
	PCtxCancelled:          "query_context_cancelled",
	PClientTimeout:         "query_timed_out",
	PBigRequest:            "request_near_or_over_server_buffer_size",
	PSocketLeftOpen:        "sut_socket_left_open_after_stop",
	PIDCollision:           "llmnr_id_collision_run_discarded",
	PChallenge:             "name_challenge_completed",
	PStopStateTriggered:    "stop_placed_by_internal_state_trigger",
	PStopWhileChanBlocked:  "stop_while_sut_task_blocked_on_channel",
	PFlood:                 "burst_of_8_to_40_datagrams_from_one_client",
	PTCPStalledPrefix:      "tcp_frame_prefix_split_across_the_read_timeout",
	PJunk:                  "ill_formed_datagrams_between_well_formed_requests",
	PLifecycleCycle:        "start_stop_cycle_without_traffic_after_stop",
	PLifecycleInFlight:     "start_stop_cycle_with_requests_in_flight",
	PStopAtStatement:       "stop_placed_at_an_exact_sut_statement_boundary",
	PTwinIDs:               "two_clients_on_one_host_using_the_same_transaction_ids",
	PChurnNoise:            "refused_two_record_registrations_between_churn_steps",
	PCtxDeadline:           "query_context_with_its_own_deadline",
	PDefenders:             "defend_name_callers_next_to_the_servers",
	PLLJunk:                "ill_formed_or_response_datagrams_sent_to_the_llmnr_server",
	PClaimers:              "several_nodes_claim_one_unique_name_at_the_same_moment",
	PReqPairPlaced:         "request_suspended_at_an_exact_statement_while_another_runs_to_completion",
	PTCPRunt:               "tcp_frame_too_short_to_be_a_request_between_requests",
	PExactSize:             "request_of_exactly_a_receive_buffer_size",
	PNagging:               "responder_repeats_mismatching_responses_with_the_query_id",
	PEdgeIDs:               "transaction_ids_0x0000_and_0xffff",
	PTCPSplitWait:          "tcp_client_waits_for_answer_1_before_completing_frame_2",
}

var scenarioNames = [...]string{"nbns-server", "nbns-udp+tcp", "llmnr-server", "llmnr-client", "llmnr-client+server", "nbns-challenger", "nbns-lifecycle"}

// Run executes one simulated run.
func Run(seed uint64, index int64, o hx.Opts) *hx.Result {
	res := &hx.Result{Property: "C18", Index: index, Seed: seed, Extra: map[string]int64{}}
	en := hx.AllKinds()
	cfg := rt.Config{Seed: seed, Replay: o.Replay, Verbose: o.Verbose, NPoints: o.NPoints, Bias: hx.Swarm(seed, en), MaxSteps: 20_000_000}
	cfg.PCT = hx.SwarmPCT(seed)
	if o.Scenario == "openum" || o.Scenario == "stopenum" || o.Scenario == "stopenum2" || o.Scenario == "reqpair" {
		cfg.PCT = false
		for k := range cfg.Bias {
			cfg.Bias[k] = 0
		}
	}
	w := rt.NewWorld(cfg)
	var bad *hx.Violation
	v := w.Run(func() {
		if o.Scenario == "openum" {
			res.Scenario = "openum"
			w.Quiet = true
			desc, b := runOpcodeProbe(index)
			bad = b
			res.Sample = desc
			res.NonTrivial = true
			return
		}
		if o.Scenario == "stopenum" {
			res.Scenario = "stopenum"
			bad = runStopEnum(w, res, index)
			return
		}
		if o.Scenario == "reqpair" {
			res.Scenario = "reqpair"
			bad = runReqPair(w, res, index)
			return
		}
		if o.Scenario == "stopenum2" {
			res.Scenario = "stopenum2"
			bad = runStopEnum2(w, res, index)
			return
		}
		sc := hx.G(len(scenarioNames))
		if v, ok := o.Param["sc"]; ok {
			sc = int(v)
		}
		res.Scenario = scenarioNames[sc]
		switch sc {
		case 0:
			bad = runNBRandom(w, res, 1)
		case 1:
			bad = runNBRandom(w, res, 2)
		case 2:
			bad = runLLMNR(w, res, true, false)
		case 3:
			bad = runLLMNR(w, res, false, true)
		case 4:
			bad = runLLMNR(w, res, true, true)
		case 5:
			bad = runChallenger(w, res)
		case 6:
			bad = runLifecycle(w, res)
		}
	})
	res.SimNs = w.SimNow()
	if v == nil && bad != nil {
		res.Violation = bad
	}
	hx.Finish(res, w, v, false)
	return res
}

// shutdownCheck: after every Stop/Close has been called and returned, all SUT tasks must be gone within the bound.
func shutdownCheck(system string, boundNs int64) *hx.Violation {
	deadline := rt.Now() + boundNs
	for {
		live := rt.LiveSUTTasks()
		if len(live) == 0 {
			return nil
		}
		if rt.Now() >= deadline {
			t := live[0]
			var all []string
			for _, l := range live {
				all = append(all, fmt.Sprintf("%s: %s", l.Site, l.StateString()))
			}
			sort.Strings(all)
			return &hx.Violation{Class: "leak", Key: system + "/" + t.Site,
				Msg: fmt.Sprintf("%d SUT task(s) still alive %.1f simulated seconds after Stop/Close returned:\n  %s", len(live), float64(boundNs)/1e9, joinStr(all, "\n  "))}
		}
		rt.SleepUntil(rt.Now() + 250e6)
	}
}

func joinStr(s []string, sep string) string {
	out := ""
	for i, x := range s {
		if i > 0 {
			out += sep
		}
		out += x
	}
	return out
}

// joinWithin waits for t with a simulated-time bound.
//
// While faults are still being injected the scheduler may let time pass although tasks are runnable
// (stalled-task fault), so an expired bound proves nothing there: on expiry the run is switched to the
// quiet phase (time advances only when everybody is blocked) and the task gets the full bound again.
func joinWithin(t *rt.Task, boundNs int64) bool {
	skips := rt.W.Stats.TimeSkips
	if rt.Join(t, rt.Now()+boundNs) {
		return true
	}
	if rt.W.Quiet || rt.W.Stats.TimeSkips == skips {
		return false // every nanosecond of the bound passed with all tasks blocked: conclusive
	}
	rt.W.Quiet = true
	return rt.Join(t, rt.Now()+boundNs)
}

func noteSockets() {
	if _, open := simnet.OpenSockets(); open > 0 {
		rt.Probe(PSocketLeftOpen)
	}
}
