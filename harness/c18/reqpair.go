package c18

import (
	"fmt"
	"net"
	"time"

	"verif.local/harness/hx"
	"verif.local/sim/rt"
)

// ---------------------------------------------------------------- two requests, one suspended inside the other
//
// The C18 counterpart of C17's single-preemption enumeration, at the level of requests on the wire: request A is sent,
// and after exactly k statements of the server (receive loop, A's handler, the table) whoever is running is suspended;
// request B is then sent and handled to completion; then A goes on. No faults, no other traffic. For every k from 1 up
// to past the end of A's handling.
//
//	claim / claim  : two nodes register the same fresh unique name. At most one may be told it is theirs, and the name
//	                 then answers with that node's address.
//	join / release : a node joins a group while its only other member releases it. A join that was acknowledged is
//	                 visible afterwards.
//
// index -> (transport, pair, k)

const reqPairK = 700

var reqPairSystems = [...]string{"nbtns.Server/udp", "nbtns.UDPServer/udp", "nbtns.TCPServer/tcp"}
var reqPairKinds = [...]string{"claim-claim", "join-release"}

func ReqPairSize() int64 { return int64(len(reqPairSystems)*len(reqPairKinds)) * reqPairK }

func runReqPair(w *rt.World, res *hx.Result, index int64) *hx.Violation {
	k := 1 + int(index%reqPairK)
	pair := int(index / reqPairK % int64(len(reqPairKinds)))
	sysIdx := int(index / (reqPairK * int64(len(reqPairKinds))) % int64(len(reqPairSystems)))
	sysName := reqPairSystems[sysIdx]
	res.Sample = fmt.Sprintf("system=%s pair=%s first-request-suspended-after-statements=%d", sysName, reqPairKinds[pair], k)
	res.NonTrivial = true
	w.Quiet = true
	kind := 1
	if sysIdx > 0 {
		kind = 2
	}
	exchange := udpExchange
	if sysIdx == 2 {
		exchange = tcpExchange
	}
	sys := startNB(kind)
	if sys.err != nil {
		return &hx.Violation{Class: "start_failed", Key: sysName, Msg: sys.err.Error()}
	}
	ipA, ipB, ipC := net.IP{10, 0, 4, 1}, net.IP{10, 0, 4, 2}, net.IP{10, 0, 4, 3}
	const name = "PAIREDNAME"
	var reqA, reqB []byte
	switch pair {
	case 0:
		reqA = buildRequest(0x6a01, 5, 0, nil, name, ipA, 86400, false)
		reqB = buildRequest(0x6b01, 5, 0, nil, name, ipB, 86400, false)
	case 1:
		// the group exists with C as its only member
		if r := exchange(buildRequest(0x6c01, 5, 0x0080, nil, name, ipC, 86400, false), 3*time.Second); r == nil || parseResponse(r).rcode != 0 {
			return &hx.Violation{Class: "wrong_answer", Key: sysName + "/reqpair-setup", Msg: "registering a fresh group name on the quiescent server failed: " + describeOrNone(r)}
		}
		reqA = buildRequest(0x6a01, 5, 0x0080, nil, name, ipA, 86400, false)
		reqB = buildRequest(0x6b01, 6, 0, nil, name, ipC, 0, false)
	}
	rcA, rcB := -1, -1
	armed := &rt.Flag{}
	placed := false
	second := rt.GoHarness("node-b", "10.0.4.2", func() {
		armed.Set()
		placed = rt.AfterPointsStall(k, rt.Now()+1e9)
		if r := exchange(reqB, 3*time.Second); r != nil {
			rcB = parseResponse(r).rcode
		}
	})
	armed.Wait(-1)
	first := rt.GoHarness("node-a", "10.0.4.1", func() {
		if r := exchange(reqA, 3*time.Second); r != nil {
			rcA = parseResponse(r).rcode
		}
	})
	rt.Join(first, -1)
	rt.Join(second, -1)
	final := exchange(buildRequest(0x6d01, 0, 0, []string{name}, "", nil, 0, false), 3*time.Second)
	stopper := rt.GoHarness("stopper", serverHost, func() { sys.stop() })
	if !joinWithin(stopper, nbStopBound) {
		return &hx.Violation{Class: "stop_blocked", Key: sysName + "/reqpair", Msg: "Stop() did not return after the two requests; the calling task is " + stopper.StateString()}
	}
	if v := shutdownCheck(sysName+"/reqpair", nbStopBound); v != nil {
		return v
	}
	if placed {
		rt.Probe(PReqPairPlaced)
	}
	if final == nil {
		return &hx.Violation{Class: "no_response", Key: sysName + "/reqpair", Msg: "the name query after the two requests was not answered"}
	}
	fr := parseResponse(final)
	has := func(ip net.IP) bool {
		for _, a := range fr.answers {
			if a.ip.Equal(ip) {
				return true
			}
		}
		return false
	}
	desc := fmt.Sprintf("request A suspended after %d statements of the server while request B ran to completion: A -> rcode %d, B -> rcode %d, then the name answers %s", k, rcA, rcB, describeResp(final))
	switch pair {
	case 0:
		if rcA == 0 && rcB == 0 {
			return &hx.Violation{Class: "wrong_answer", Key: sysName + "/claimed-twice",
				Msg: "two nodes registered the same fresh unique name and both were told it is theirs. " + desc}
		}
		if (rcA == 0 && !has(ipA)) || (rcB == 0 && !has(ipB)) {
			return &hx.Violation{Class: "wrong_answer", Key: sysName + "/claim-acknowledged-and-lost",
				Msg: "the node whose registration was acknowledged is not the owner afterwards. " + desc}
		}
	case 1:
		if rcA == 0 && !has(ipA) {
			return &hx.Violation{Class: "wrong_answer", Key: sysName + "/join-acknowledged-and-lost",
				Msg: "a node joined a group while the only other member released it; the join was acknowledged but the node is not a member afterwards. " + desc}
		}
	}
	return nil
}
