package c18

import (
	"encoding/binary"
	"fmt"
	"io"
	"net"
	"time"

	"github.com/TheManticoreProject/Manticore/network/netbios/nbtns"

	"verif.local/harness/hx"
	simnet "verif.local/sim/net"
	"verif.local/sim/rt"
)

// runNBRandom: concurrent NBNS clients against nbtns.Server (kind 1) or UDPServer+TCPServer (kind 2).
//
// Expected responses are obtained differentially: the very same request bytes are first sent, one at a
// time, to the quiescent server (no faults, nothing concurrent); under concurrency and faults every
// response must be byte-identical (apart from the transaction id) to the sequential answer of the one
// request whose id it carries. That is exactly "answered from that request's own bytes".
func runNBRandom(w *rt.World, res *hx.Result, kind int) *hx.Violation {
	sysName := "nbtns.Server"
	if kind == 2 {
		sysName = "nbtns.UDPServer+TCPServer"
	}
	// ---- generation (fixed width)
	const maxNames, maxClients, maxReqs = 12, 6, 5
	nNames := 3 + hx.G(maxNames-2)
	var registered [maxNames]bool
	for i := range registered {
		registered[i] = hx.G(3) != 0
	}
	type genReq struct {
		names [3]int
		nq    int
		big   int
		gap   int
	}
	var pool [maxClients][maxReqs]genReq
	for c := range pool {
		for r := range pool[c] {
			g := &pool[c][r]
			for i := range g.names {
				g.names[i] = hx.G(maxNames)
			}
			g.nq = [...]int{1, 1, 1, 1, 2, 3}[hx.G(6)]
			g.big = hx.G(24) // 0 = pad with many questions up to the server buffer size
			g.gap = hx.G(4)
		}
	}
	var clTCP, clAbort, clWindow, clN, clLinger, clRunt [maxClients]int
	for c := 0; c < maxClients; c++ {
		clLinger[c] = hx.F(4) // tcp: 0 = keep the connection open (idle) until after Stop; 1 = connect and send nothing, stay connected
		clTCP[c] = hx.G(3)
		clAbort[c] = hx.F(6)
		clRunt[c] = hx.F(48) // tcp: < 16: a frame too short to be a request (length prefix 1..11) is sent before request number (value % 4)
		clWindow[c] = hx.F(4)
		clN[c] = 1 + hx.G(maxReqs)
	}
	nClients := 2 + hx.G(maxClients-1)
	edgeIDs := hx.G(3) == 0
	reuseIDs := hx.G(2) == 0 // with shareHosts: client 2k+1 reuses the transaction ids of client 2k
	prevBase := uint16(0)
	shareHosts := hx.G(3) == 0 // clients 2k and 2k+1 sit on the same host (several connections from one address)
	flood := hx.G(4) == 0      // client 0 sends a burst of up to 40 datagrams
	floodN := 8 + hx.G(33)
	junkOn := hx.G(4) == 0
	junkN := 1 + hx.G(6)
	if hx.G(4) == 0 {
		junkN = 33 + hx.G(16) // more than any plausible bound on handlers / queue slots a server might keep
	}
	junkShape := hx.G(3)
	churnOn := hx.G(3) != 0
	churnRounds := 1 + hx.G(3)
	churnNoise := hx.G(2) == 0 // refused two-record registrations between the steps
	claimOn := hx.G(3) == 0
	claimN := 2 + hx.G(2)
	claimTCP := hx.G(2) == 0
	defendOn := hx.G(3) == 0
	defendN := 2 + hx.G(10)
	churnTCP := kind == 2 && hx.G(2) == 0
	stopMode := hx.F(14) // 0..1: after the clients; 2..7: at a chosen time while they run; 8..9: when client 0 has sent its k-th request
	// 10: when some SUT task is blocked on a channel; 11: when >= 3 packet handlers are alive; 12: when a SUT task waits for a lock
	// 13: when client 0 has sent its k-th request and the SUT has then executed exactly stopAfterPts more statements
	stopAt := [...]int64{0, 0, 0, 1e6, 10e6, 100e6, 1e9, 6e9, 0, 0, 0, 0, 0, 0}[stopMode]
	stopAfterPts := 1 + hx.F(500)
	if fb := hx.F(2); flood && fb == 0 {
		stopMode = 10 // a burst is the situation in which internal queues fill up: place the Stop there
	}
	stopAfterK := 1 + hx.F(40)
	stopTrigger := &rt.Flag{}
	abortPos := hx.F(1 << 12)

	sys := startNB(kind)
	if sys.err != nil {
		return &hx.Violation{Class: "start_failed", Key: sysName, Msg: sys.err.Error()}
	}

	// ---- quiescent phase: populate, then learn the sequential answers
	w.Quiet = true
	var clients []*nbClient
	release := &rt.Flag{} // set after the shutdown phase: lingering TCP clients close their connections only then
	idc := uint16(0x1000 + hx.G(0x4000))
	for c := 0; c < nClients; c++ {
		cl := &nbClient{idx: c, host: fmt.Sprintf("10.0.1.%d", c+1), abortAt: -1, ioDone: &rt.Flag{}, release: release}
		if shareHosts {
			cl.host = fmt.Sprintf("10.0.1.%d", c/2+1)
		}
		if c == 0 {
			cl.trigger, cl.triggerAt = stopTrigger, stopAfterK
		}
		cl.tcp = kind == 2 && clTCP[c] == 0
		cl.linger = cl.tcp && clLinger[c] <= 1
		cl.silent = cl.tcp && clLinger[c] == 1
		cl.noread = cl.linger && !cl.silent && clWindow[c] >= 2                 // pipelines its requests, never reads a response, keeps the connection open
		cl.paced = cl.tcp && !cl.linger && clLinger[c] == 2 && clWindow[c] <= 1 // one request every 12 s on one connection
		cl.stall = cl.tcp && !cl.linger && clLinger[c] == 3 && clWindow[c] >= 2 // first byte of a frame, 31 s pause, the rest
		idKeep := idc
		if reuseIDs && shareHosts && c%2 == 1 {
			// this client sits on the same host as the previous one and uses the same transaction ids for other
			// questions: (address, id) does not identify a request, the socket does
			idc = prevBase
			rt.Probe(PTwinIDs)
		} else {
			prevBase = idc
		}
		nreq := clN[c]
		if flood && c == 0 {
			nreq = floodN
			rt.Probe(PFlood)
		}
		for r := 0; r < nreq; r++ {
			g := pool[c][r%maxReqs]
			if r >= maxReqs {
				g.gap, g.big = 0, 1
			}
			var qn []string
			nq := g.nq
			if g.big == 0 {
				nq = 12 + g.names[0]%6 // 12..17 questions: 468..658 bytes, around MaxUDPSize (576) and below 1024
				rt.Probe(PBigRequest)
			}
			for i := 0; i < nq; i++ {
				qn = append(qn, nameOf(g.names[i%3]%nNames))
			}
			churnQ := churnOn && g.big != 0 && g.gap == 3
			if churnQ {
				qn = []string{churnName}
			}
			idc += 1 + uint16(g.names[1]%3)
			rid := idc
			if edgeIDs && r == 0 && c < 2 && !(reuseIDs && shareHosts) {
				rid = [...]uint16{0x0000, 0xFFFF}[c] // legal transaction ids like any other
				rt.Probe(PEdgeIDs)
			}
			must := false
			var b []byte
			if shape := g.names[1] % 12; shape >= 1 && shape <= 5 && !churnQ && g.big != 0 {
				b = buildVariedQuery(rid, shape, qn, uint16(g.names[2]%2)<<8)
			} else {
				b = buildRequest(rid, 0, uint16(g.names[2]%2)<<8, qn, "", nil, 0, false)
			}
			if g.big == 2 && r < maxReqs && !churnQ && !cl.tcp {
				// a request of exactly the size of a receive buffer (576 / 1024 bytes), or one byte off: the datagram
				// that fills the buffer to the last byte is whole, not truncated
				target := [...]int{576, 1024, 575, 577, 1023, 1025}[g.names[0]%6]
				if eb := buildExactSize(rid, target, qn[0]); eb != nil {
					b = eb
					rt.Probe(PExactSize)
					must = (kind == 1 && target <= 1024) || (kind == 2 && target <= 576)
				}
			}
			cl.reqs = append(cl.reqs, &nbReq{id: rid, bytes: b, sig: stripID(b), tcp: cl.tcp, churn: churnQ, mustAnswer: must})
			cl.gaps = append(cl.gaps, g.gap)
		}
		if idc < idKeep {
			idc = idKeep
		}
		if cl.tcp && clRunt[c] >= 40 && clAbort[c] != 0 && !cl.linger && !cl.paced && !cl.stall && len(cl.reqs) >= 2 {
			// sends one complete request and the beginning of the next, and waits for the first answer before it
			// sends the rest (a server that sits on a finished response until the stream runs dry starves this client)
			cl.splitWait = 1 + (clRunt[c]*7+c)%(1+len(cl.reqs[1].bytes))
			rt.Probe(PTCPSplitWait)
		}
		cl.runtAt, cl.runtLen = -1, 0
		if cl.tcp && clRunt[c] < 16 && clAbort[c] != 0 && !cl.silent && !cl.paced && !cl.stall && len(cl.reqs) > 0 {
			cl.runtAt = clRunt[c] % 4 % len(cl.reqs)
			cl.runtLen = 1 + (clRunt[c]*5+c)%11
			rt.Probe(PTCPRunt)
		}
		if cl.tcp && clAbort[c] == 0 && !cl.linger && !cl.paced && !cl.stall {
			total := 0
			for _, r := range cl.reqs {
				total += 2 + len(r.bytes)
			}
			cl.abortAt = abortPos % (total + 1)
		}
		clients = append(clients, cl)
	}
	quietUnanswered := ""
	expUDP := map[string][]byte{}
	expTCP := map[string][]byte{}
	var churnUDP, churnTCPAns [][]byte // the answers to "query churn group" in every state of the churn cycle
	setup := rt.GoHarness("setup", "10.0.1.250", func() {
		for i := 0; i < nNames; i++ {
			if !registered[i] {
				continue
			}
			if kind == 2 {
				sys.table.RegisterName(nameOf(i), nbtns.Unique, ipOf(i), 24*time.Hour)
			} else {
				udpExchange(buildRequest(0x0050+uint16(i), 5, 0, nil, nameOf(i), ipOf(i), 86400, false), 3*time.Second)
			}
		}
		if churnOn {
			if kind == 2 {
				sys.table.RegisterName(churnUniq, nbtns.Unique, churnUniqIP, 24*time.Hour)
			} else {
				udpExchange(buildRequest(0x0441, 5, 0, nil, churnUniq, churnUniqIP, 86400, false), 3*time.Second)
			}
			for _, m := range churnMembers {
				churnOp(sys, kind, 5, m)
			}
			probe := buildRequest(0x0444, 0, 0, []string{churnName}, "", nil, 0, false)
			for step := 0; step <= len(churnCycle); step++ {
				if a := udpExchange(probe, 3*time.Second); a != nil {
					churnUDP = append(churnUDP, a)
				}
				if kind == 2 {
					if a := tcpExchange(probe, 3*time.Second); a != nil {
						churnTCPAns = append(churnTCPAns, a)
					}
				}
				if step < len(churnCycle) {
					churnOp(sys, kind, churnCycle[step].op, churnMembers[churnCycle[step].m])
				}
			}
		}
		{
			pq := buildRequest(0x7001, 0, 0, []string{nameOf(0)}, "", nil, 0, false)
			expUDP[stripID(pq)] = udpExchange(pq, 3*time.Second)
			if kind == 2 {
				expTCP[stripID(pq)] = tcpExchange(pq, 3*time.Second)
			}
		}
		for _, cl := range clients {
			for _, r := range cl.reqs {
				if r.churn {
					continue
				}
				if cl.tcp {
					if _, ok := expTCP[r.sig]; !ok {
						expTCP[r.sig] = tcpExchange(r.bytes, 3*time.Second)
					}
				} else if _, ok := expUDP[r.sig]; !ok {
					expUDP[r.sig] = udpExchange(r.bytes, 3*time.Second)
					if r.mustAnswer && expUDP[r.sig] == nil && quietUnanswered == "" {
						quietUnanswered = fmt.Sprintf("a well-formed name query of %d bytes (not more than the server's receive buffer) sent alone to the quiescent server got no answer", len(r.bytes))
					}
				}
			}
		}
	})
	rt.Join(setup, -1)
	if quietUnanswered != "" {
		// an absolute check next to the differential oracle, which would otherwise learn "no answer" from the server
		return &hx.Violation{Class: "no_response", Key: sysName + "/exact-size-quiescent", Msg: quietUnanswered}
	}

	// ---- concurrent phase with faults
	w.Quiet = false
	startT := rt.Now()
	var tasks []*rt.Task
	for _, cl := range clients {
		cl := cl
		if cl.tcp {
			win := [...]int{1 << 20, 1 << 20, 64, 5}[clWindow[cl.idx]]
			tasks = append(tasks, rt.GoHarness(fmt.Sprintf("tcp-client%d", cl.idx), cl.host, func() { tcpClient(cl, win) }))
		} else {
			tasks = append(tasks, rt.GoHarness(fmt.Sprintf("udp-client%d", cl.idx), cl.host, func() { udpClient(cl) }))
		}
	}
	if junkOn {
		// A sender of ill-formed datagrams: a header that announces more questions than the datagram carries (cut
		// after a complete question), runts shorter than a header, requests cut inside the question -- a handful, or
		// more than forty. What the server does with them is not judged here (decoder totality is C07); what is
		// judged is that they leave nothing behind that leaks into the answers to the well-formed requests around them.
		rt.GoHarness("junk-sender", "10.0.1.240", func() {
			c, err := simnet.ListenUDP("udp4", &net.UDPAddr{})
			if err != nil {
				return
			}
			defer c.Close()
			for i := 0; i < junkN; i++ {
				b := buildRequest(uint16(0x7700+i), 0, 0, []string{"GHOSTNAME"}, "", nil, 0, false)
				shape := (i + junkShape) % 3
				if junkN >= 30 {
					shape = junkShape // a long series of one kind
				}
				switch shape {
				case 0:
					b[5] = 2 // QDCOUNT = 2, one question present
				case 1:
					b = b[:i%12] // shorter than a header
				case 2:
					b = b[:12+(i*7)%(len(b)-12)] // cut somewhere inside the question
				}
				c.WriteToUDP(b, &net.UDPAddr{IP: serverIP, Port: 137})
				if junkN < 30 || i%8 == 7 {
					rt.SleepUntil(rt.Now() + int64(1+i%3)*1e6)
				}
			}
		})
		rt.Probe(PJunk)
	}
	// name defenders: NameChallenger.DefendName answers queries from the shared table, next to the servers' own
	// handlers and concurrently with the churner's registrations and releases
	var defTasks []*rt.Task
	var defBads [2]string
	if kind == 2 && defendOn {
		for d := 0; d < 2; d++ {
			d := d
			defTasks = append(defTasks, rt.GoHarness(fmt.Sprintf("defender%d", d), "10.0.1.230", func() {
				ch := nbtns.NewNameChallenger(sys.table, nbtns.NewPacketHandler(sys.table))
				for i := 0; i < defendN; i++ {
					idx := (i*5 + d*3) % nNames
					req := &nbtns.NBTNSPacket{Header: nbtns.NBTNSHeader{TransactionID: uint16(0x6400 + i), Questions: 2}}
					for _, n := range []string{nameOf(idx), churnName} {
						req.Questions = append(req.Questions, nbtns.NBTNSQuestion{Name: &nbtns.NetBIOSName{Name: n}, Type: 0x20, Class: 1})
					}
					resp := &nbtns.NBTNSPacket{}
					ch.DefendName(req, resp)
					mine := 0
					for _, a := range resp.Answers {
						if a.Name != nil && a.Name.Name == nameOf(idx) {
							mine++
							if !net.IP(a.RData).Equal(ipOf(idx)) {
								defBads[d] = fmt.Sprintf("DefendName answered for %s with the address %v, the name is registered to %v", nameOf(idx), net.IP(a.RData), ipOf(idx))
							}
						}
					}
					if want := map[bool]int{true: 1, false: 0}[registered[idx]]; mine != want && defBads[d] == "" {
						defBads[d] = fmt.Sprintf("DefendName returned %d records for %s (registered: %v)", mine, nameOf(idx), registered[idx])
					}
					rt.SleepUntil(rt.Now() + int64(1+i%3)*1e6)
				}
			}))
		}
		rt.Probe(PDefenders)
	}
	// claimers: nodes on different hosts register the same fresh unique name at the same moment; the server may tell
	// at most one of them that the name is theirs, and the one it told is the owner afterwards
	var claimTasks []*rt.Task
	var claimRc [3]int
	if claimOn {
		for c := 0; c < claimN; c++ {
			c := c
			claimRc[c] = -1
			claimTasks = append(claimTasks, rt.GoHarness(fmt.Sprintf("claimer%d", c), fmt.Sprintf("10.0.4.%d", c+1), func() {
				req := buildRequest(uint16(0x6600+c), 5, 0, nil, claimName, net.IP{10, 0, 4, byte(c + 1)}, 86400, false)
				var resp []byte
				if kind == 2 && claimTCP {
					resp = tcpExchange(req, 3*time.Second)
				} else {
					resp = udpExchange(req, 3*time.Second)
				}
				if resp != nil && len(resp) >= 2 && binary.BigEndian.Uint16(resp) == uint16(0x6600+c) {
					claimRc[c] = parseResponse(resp).rcode
				}
			}))
		}
		rt.Probe(PClaimers)
	}
	churnReliable := true
	if churnOn {
		tasks = append(tasks, rt.GoHarness("churner", "10.0.1.200", func() {
			churnReliable = churner(churnTCP, churnRounds, churnNoise)
		}))
	}
	var stopper *rt.Task
	stoppedEarly := false
	stopCalled := &rt.Flag{} // set when the early stopper is about to call Stop (it may still be waiting for its trigger)
	if stopMode >= 2 {
		stoppedEarly = true
		stopper = rt.GoHarness("stopper", serverHost, func() {
			switch {
			case stopMode == 10:
				if rt.WaitState(&rt.StateCond{BlockedIn: "channel send"}, startT+10e9) {
					rt.Probe(PStopStateTriggered)
				}
			case stopMode == 11:
				if rt.WaitState(&rt.StateCond{LiveSite: "handlePacket", LiveAtLeast: 3}, startT+10e9) {
					rt.Probe(PStopStateTriggered)
				}
			case stopMode == 12:
				if rt.WaitState(&rt.StateCond{BlockedIn: "sync."}, startT+10e9) {
					rt.Probe(PStopStateTriggered)
				}
			case stopMode == 13:
				stopTrigger.Wait(startT + 10e9)
				if rt.AfterPoints(stopAfterPts, rt.Now()+1e9) {
					rt.Probe(PStopAtStatement)
				}
			case stopMode >= 8:
				stopTrigger.Wait(startT + 10e9) // progress-triggered: in the middle of client 0's burst
			default:
				rt.SleepUntil(startT + stopAt)
			}
			stopCalled.Set()
			noteStop()
			sys.stop()
		})
	}
	var churnTask *rt.Task
	if churnOn {
		churnTask = tasks[len(tasks)-1]
	}
	for i, cl := range clients {
		if cl.linger {
			cl.ioDone.Wait(-1)
		} else {
			rt.Join(tasks[i], -1)
		}
	}
	if churnTask != nil {
		rt.Join(churnTask, -1)
	}
	for _, t := range defTasks {
		rt.Join(t, -1)
	}
	for _, t := range claimTasks {
		rt.Join(t, -1)
	}
	if claimOn && !stoppedEarly {
		acked, answered := -1, 0
		for c := 0; c < claimN; c++ {
			if claimRc[c] >= 0 {
				answered++
			}
			if claimRc[c] == 0 {
				if acked >= 0 {
					return &hx.Violation{Class: "wrong_answer", Key: sysName + "/claimed-twice",
						Msg: fmt.Sprintf("nodes 10.0.4.%d and 10.0.4.%d registered the unique name %s at the same moment and both were told it is theirs (rcode 0)", acked+1, c+1, claimName)}
				}
				acked = c
			}
		}
		_ = answered
	}

	for _, b := range defBads {
		if b != "" {
			return &hx.Violation{Class: "wrong_answer", Key: sysName + "/defend-name", Msg: b}
		}
	}

	// ---- the churn itself: every release / re-registration of the cycle is acknowledged as a success, and whole
	// rounds bring the group back to where it started (absolute checks: a server that mishandles a sequence of
	// requests on one connection does so on the quiescent server too, where the differential oracle learns from it)
	w.Quiet = true
	churnClean := churnOn && churnReliable && !stoppedEarly && (churnTCP || (w.Stats.Probes[rt.PDgramDup] == 0 && w.Stats.Probes[rt.PDgramDelayed] == 0 && w.Stats.Probes[rt.PDgramDropped] == 0))
	if churnClean {
		for i, rc := range churnNoiseRcodes {
			if rc == 0 {
				return &hx.Violation{Class: "wrong_answer", Key: sysName + "/churn-refused-registration",
					Msg: fmt.Sprintf("registration request #%d carrying [%s for a current member, %s which another node holds as a unique name] was acknowledged with rcode 0", i, churnName, churnUniq)}
			}
		}
		for i, rc := range churnRcodes {
			if rc != 0 {
				st := churnCycle[i%len(churnCycle)]
				return &hx.Violation{Class: "wrong_answer", Key: sysName + "/churn-step",
					Msg: fmt.Sprintf("step %d of the release / re-register cycle on the group %s (opcode %d for member %v) was answered with rcode %d although the member was in the state the step expects", i, churnName, st.op, churnMembers[st.m], rc)}
			}
		}
		var final []byte
		fq := rt.GoHarness("churn-final", "10.0.1.252", func() {
			final = udpExchange(buildRequest(0x0445, 0, 0, []string{churnName}, "", nil, 0, false), 3*time.Second)
		})
		rt.Join(fq, -1)
		if len(churnUDP) > 0 && final != nil && !equalModID(final, churnUDP[0]) {
			return &hx.Violation{Class: "wrong_answer", Key: sysName + "/churn-final-state",
				Msg: fmt.Sprintf("after %d complete release / re-register rounds the group %s does not answer as it did before the rounds.\n  now   : %s\n  before: %s", churnRounds, churnName, describeResp(final), describeResp(churnUDP[0]))}
		}
	}

	// ---- quiet phase: once faults have stopped the server still answers (bounded liveness)
	if !stoppedEarly {
		var pu, pt []byte
		probeReq := buildRequest(0x7001, 0, 0, []string{nameOf(0)}, "", nil, 0, false)
		var expU, expT []byte
		pr := rt.GoHarness("probe", "10.0.1.251", func() {
			pu = udpExchange(probeReq, 3*time.Second)
			if kind == 2 {
				pt = tcpExchange(probeReq, 3*time.Second)
			}
		})
		rt.Join(pr, -1)
		expU = expUDP[stripID(probeReq)]
		expT = expTCP[stripID(probeReq)]
		if expU != nil && (pu == nil || !equalModID(pu, expU)) {
			return &hx.Violation{Class: "no_response", Key: sysName + "/after-faults",
				Msg: "after all faults had stopped, a single name query over UDP got " + describeOrNone(pu) + ", expected " + describeResp(expU)}
		}
		if kind == 2 && expT != nil && (pt == nil || !equalModID(pt, expT)) {
			return &hx.Violation{Class: "no_response", Key: sysName + "/tcp-after-faults",
				Msg: "after all faults had stopped, a single name query over TCP got " + describeOrNone(pt) + ", expected " + describeResp(expT)}
		}
	}

	// ---- shutdown phase: no more faults; Stop must return, every SUT task must exit
	if stopper == nil {
		stopper = rt.GoHarness("stopper", serverHost, func() {
			noteStop()
			sys.stop()
		})
	}
	if stoppedEarly {
		stopCalled.Wait(-1) // the bound runs from the call of Stop
	}
	stopOK := joinWithin(stopper, nbStopBound)
	var leakV *hx.Violation
	if stopOK {
		leakV = shutdownCheck(sysName, nbStopBound)
	}
	// now the lingering clients may go
	release.Set()
	for _, t := range tasks {
		rt.Join(t, -1)
	}
	if leakV != nil {
		return leakV
	}
	if !stopOK {
		return &hx.Violation{Class: "stop_blocked", Key: sysName,
			Msg: fmt.Sprintf("Stop() had not returned %.0f simulated seconds after it was called; the calling task is %s", float64(nbStopBound)/1e9, stopper.StateString())}
	}
	noteSockets()

	// ---- isolation oracle
	dups := w.Stats.Probes[rt.PDgramDup] > 0
	lossy := w.Stats.Probes[rt.PDgramDropped] > 0 || w.Stats.TimeSkips > 0 || stoppedEarly
	var sample []string
	for _, cl := range clients {
		byID := map[uint16]*nbReq{}
		for _, r := range cl.reqs {
			byID[r.id] = r
		}
		seen := map[uint16]int{}
		for k, raw := range cl.got {
			if len(raw) < 2 {
				return &hx.Violation{Class: "wrong_answer", Key: sysName, Msg: fmt.Sprintf("client %d received a %d-byte message", cl.idx, len(raw))}
			}
			id := binary.BigEndian.Uint16(raw)
			r := byID[id]
			if r == nil {
				owner := -1
				for _, o := range clients {
					for _, rr := range o.reqs {
						if rr.id == id {
							owner = o.idx
						}
					}
				}
				if owner >= 0 {
					return &hx.Violation{Class: "wrong_client", Key: sysName,
						Msg: fmt.Sprintf("client %d received a response with transaction id %#04x, which belongs to a request of client %d", cl.idx, id, owner)}
				}
				return &hx.Violation{Class: "id_mismatch", Key: sysName,
					Msg: fmt.Sprintf("client %d received a response with transaction id %#04x that no request carried", cl.idx, id)}
			}
			if cl.tcp {
				// one connection, sequential handler: the k-th response answers the k-th request
				if k >= len(cl.reqs) || cl.reqs[k].id != id {
					return &hx.Violation{Class: "id_mismatch", Key: sysName + "/tcp",
						Msg: fmt.Sprintf("tcp client %d: response #%d carries id %#04x, request #%d had another id", cl.idx, k, id, k)}
				}
			}
			if r.churn {
				// the churn group is being released / re-registered member by member while it is queried: the
				// answer must be the answer of one of the states of that cycle, never a mixture
				seen[id]++
				unreliable := !churnReliable || (!churnTCP && (w.Stats.Probes[rt.PDgramDup] > 0 || w.Stats.Probes[rt.PDgramDelayed] > 0))
				if unreliable || stoppedEarly {
					continue // lost / duplicated / reordered churn requests may have taken the group off the cycle
				}
				set := churnUDP
				if cl.tcp {
					set = churnTCPAns
				}
				okc := false
				for _, a := range set {
					if equalModID(raw, a) {
						okc = true
					}
				}
				if !okc {
					return &hx.Violation{Class: "wrong_answer", Key: sysName + "/group-under-churn",
						Msg: fmt.Sprintf("client %d queried the group %s while its members were released and re-registered one at a time; the answer matches no state the group was ever in.\n  got: %s\n  states: %s",
							cl.idx, churnName, describeResp(raw), describeAll(set))}
				}
				continue
			}
			exp := expUDP[r.sig]
			if cl.tcp {
				exp = expTCP[r.sig]
			}
			if exp == nil {
				return &hx.Violation{Class: "wrong_answer", Key: sysName,
					Msg: fmt.Sprintf("client %d got a response to request %#04x, which the quiescent server did not answer at all", cl.idx, id)}
			}
			if !equalModID(raw, exp) {
				return &hx.Violation{Class: "wrong_answer", Key: sysName,
					Msg: fmt.Sprintf("client %d: the response carrying id %#04x is not the answer to that request.\n  request : % x\n  got     : %s\n  expected: %s", cl.idx, id, r.bytes, describeResp(raw), describeResp(exp))}
			}
			seen[id]++
			if seen[id] > 1 && !dups {
				return &hx.Violation{Class: "duplicate_response", Key: sysName,
					Msg: fmt.Sprintf("client %d received %d responses for request %#04x although the network duplicated nothing in this run", cl.idx, seen[id], id)}
			}
		}
		if cl.heldBack && !stoppedEarly && w.Stats.TimeSkips == 0 {
			return &hx.Violation{Class: "no_response", Key: sysName + "/held-back",
				Msg: fmt.Sprintf("tcp client %d sent one complete request and the first %d bytes of the next frame, then waited: the answer to the complete request did not come within 12 s", cl.idx, cl.splitWait)}
		}
		if cl.stall && cl.silentOpen && !stoppedEarly && w.Stats.TimeSkips == 0 {
			return &hx.Violation{Class: "no_response", Key: sysName + "/stalled-frame",
				Msg: fmt.Sprintf("tcp client %d sent the first byte of a frame, paused 31 s, then sent the rest and %d complete requests: the server neither closed the connection nor answered (%d of %d answers after 20 s of silence) -- its framing is out of step with the stream", cl.idx, len(cl.reqs), len(cl.got), len(cl.reqs))}
		}
		// (a stalled-task fault can delay the client itself past the server's 30 s idle timeout: only judged without it)
		if cl.paced && !stoppedEarly && w.Stats.TimeSkips == 0 && len(cl.got) < len(cl.reqs) {
			return &hx.Violation{Class: "no_response", Key: sysName + "/long-lived-connection",
				Msg: fmt.Sprintf("tcp client %d sent one request every 12 s on one connection and got only %d of %d answers: the server dropped a live connection", cl.idx, len(cl.got), len(cl.reqs))}
		}
		if !lossy && cl.abortAt < 0 && cl.sentAll && cl.runtAt < 0 {
			for _, r := range cl.reqs {
				exp := expUDP[r.sig]
				if cl.tcp {
					exp = expTCP[r.sig]
				}
				if r.churn {
					continue
				}
				if exp != nil && seen[r.id] == 0 {
					return &hx.Violation{Class: "no_response", Key: sysName,
						Msg: fmt.Sprintf("client %d never got an answer to request %#04x although nothing was dropped and the server was not stopped", cl.idx, r.id)}
				}
			}
		}
		if len(sample) < 6 {
			sample = append(sample, fmt.Sprintf("client%d tcp=%v abort=%d requests=%d responses=%d", cl.idx, cl.tcp, cl.abortAt, len(cl.reqs), len(cl.got)))
		}
	}
	res.NonTrivial = true
	res.Sample = map[string]any{"system": sysName, "names": nNames, "clients": sample, "stop_at_ns": stopAt, "stop_mode": stopMode}
	return nil
}

func describeResp(b []byte) string {
	r := parseResponse(b)
	s := fmt.Sprintf("id=%#04x flags=%#04x rcode=%d answers=[", r.id, r.flags, r.rcode)
	for i, a := range r.answers {
		if i > 0 {
			s += " "
		}
		s += a.name + "->" + a.ip.String()
	}
	return s + fmt.Sprintf("] (%d bytes)", len(b))
}

func noteStop() {
	c := rt.StateCond{BlockedIn: "channel send"}
	if c.Ready(nil) {
		rt.Probe(PStopWhileChanBlocked)
	}
	if rt.CountLiveSUT("handlePacket")+rt.CountLiveSUT("processHandlers") >= 2 {
		rt.Probe(PTwoHandlersAlive)
	}
	for _, t := range rt.LiveSUTTasks() {
		switch {
		case t.Blocked() && (t.Wreason == "UDPConn.Read" || t.Wreason == "Listener.Accept"):
			rt.Probe(PStopWhileReadBlocked)
		case t.Blocked() && t.Wreason == "Conn.Read":
			rt.Probe(PStopWhileTCPConn)
		default:
			rt.Probe(PStopWhileHandlerAlive)
		}
	}
}

func udpClient(cl *nbClient) {
	c, err := simnet.ListenUDP("udp4", &net.UDPAddr{})
	if err != nil {
		return
	}
	defer c.Close()
	for i, r := range cl.reqs {
		if g := cl.gaps[i]; g > 0 {
			rt.SleepUntil(rt.Now() + [...]int64{0, 1e6, 10e6, 300e6}[g])
		}
		if _, err := c.WriteToUDP(r.bytes, &net.UDPAddr{IP: serverIP, Port: 137}); err != nil {
			return
		}
		if cl.trigger != nil && (i+1 == cl.triggerAt || i+1 == len(cl.reqs)) {
			cl.trigger.Set()
		}
	}
	cl.sentAll = true
	deadline := rt.Now() + 8e9
	buf := make([]byte, 4096)
	distinct := map[uint16]bool{}
	for len(distinct) < len(cl.reqs) && rt.Now() < deadline {
		c.SetReadDeadline(time.Unix(rt.EpochUnix, 0).Add(time.Duration(deadline)))
		n, _, err := c.ReadFromUDP(buf)
		if err != nil {
			break
		}
		cl.got = append(cl.got, append([]byte(nil), buf[:n]...))
		if n >= 2 {
			distinct[binary.BigEndian.Uint16(buf)] = true
		}
		if rt.CountLiveSUT("handlePacket") >= 2 {
			rt.Probe(PTwoHandlersAlive)
		}
	}
	// linger a little for strays and duplicates
	c.SetReadDeadline(time.Unix(rt.EpochUnix, 0).Add(time.Duration(rt.Now() + 200e6)))
	for {
		n, _, err := c.ReadFromUDP(buf)
		if err != nil {
			break
		}
		cl.got = append(cl.got, append([]byte(nil), buf[:n]...))
	}
}

func tcpClient(cl *nbClient, window int) {
	defer cl.ioDone.Set()
	c, err := simnet.Dial("tcp", serverHost+":137")
	if err != nil {
		return
	}
	defer c.Close()
	if cl.linger {
		// an idle client: the connection stays open until the harness has judged the shutdown
		defer cl.release.Wait(-1)
		defer cl.ioDone.Set()
		if cl.silent {
			return
		}
	}
	simnet.SetWindow(simnet.Peer(c), window) // bytes the server may have in flight towards this (slow) client
	var stream []byte
	for i, r := range cl.reqs {
		if i == cl.runtAt {
			// a frame that cannot be a request: the server may drop the connection or skip exactly that frame
			stream = append(stream, 0, byte(cl.runtLen))
			for j := 0; j < cl.runtLen; j++ {
				// bytes that would pass for small length prefixes if a server took them for the start of a frame
				if j%2 == 0 {
					stream = append(stream, 0)
				} else {
					stream = append(stream, byte(0x0C+j/2))
				}
			}
		}
		var l [2]byte
		binary.BigEndian.PutUint16(l[:], uint16(len(r.bytes)))
		stream = append(stream, l[:]...)
		stream = append(stream, r.bytes...)
	}
	if len(cl.reqs) > 1 {
		rt.Probe(PTCPPipelined)
	}
	c.SetDeadline(time.Unix(rt.EpochUnix, 0).Add(time.Duration(rt.Now() + 40e9)))
	if cl.abortAt >= 0 {
		rt.Probe(PTCPAbortMidFrame)
		c.Write(stream[:cl.abortAt])
		if cl.abortAt%2 == 0 {
			simnet.Abort(c)
		}
		return
	}
	if cl.stall {
		// One byte of the first frame's length prefix, then silence for longer than the server's read timeout, then
		// everything else. The server may give up on the connection (EOF) or answer every request correctly; what it
		// must not do is keep the connection open and leave complete requests unanswered.
		rt.Probe(PTCPStalledPrefix)
		c.SetDeadline(time.Unix(rt.EpochUnix, 0).Add(time.Duration(rt.Now() + 120e9)))
		if _, err := c.Write(stream[:1]); err != nil {
			return
		}
		rt.SleepUntil(rt.Now() + 31e9)
		if _, err := c.Write(stream[1:]); err != nil {
			cl.closedByServer = true
			return
		}
		c.SetDeadline(time.Unix(rt.EpochUnix, 0).Add(time.Duration(rt.Now() + 20e9)))
		for len(cl.got) < len(cl.reqs) {
			var l [2]byte
			if _, err := io.ReadFull(c, l[:]); err != nil {
				if ne, ok := err.(net.Error); ok && ne.Timeout() {
					cl.silentOpen = true // still connected, nothing came for 20 s
				} else {
					cl.closedByServer = true
				}
				return
			}
			b := make([]byte, binary.BigEndian.Uint16(l[:]))
			if _, err := io.ReadFull(c, b); err != nil {
				cl.closedByServer = true
				return
			}
			cl.got = append(cl.got, b)
		}
		return
	}
	if cl.paced {
		// a long-lived connection: request, response, 12 s pause, ... (longer than any single I/O timeout in total)
		for i, r := range cl.reqs {
			if i > 0 {
				rt.SleepUntil(rt.Now() + 12e9)
			}
			c.SetDeadline(time.Unix(rt.EpochUnix, 0).Add(time.Duration(rt.Now() + 40e9)))
			var l [2]byte
			binary.BigEndian.PutUint16(l[:], uint16(len(r.bytes)))
			if _, err := c.Write(append(l[:], r.bytes...)); err != nil {
				return
			}
			f := readFrame(c)
			if f == nil {
				return
			}
			cl.got = append(cl.got, f)
		}
		cl.sentAll = true
		if cl.trigger != nil {
			cl.trigger.Set()
		}
		return
	}
	if cl.splitWait > 0 && cl.runtAt < 0 {
		first := 2 + len(cl.reqs[0].bytes)
		c.SetDeadline(time.Unix(rt.EpochUnix, 0).Add(time.Duration(rt.Now() + 12e9)))
		if _, err := c.Write(stream[:first+cl.splitWait]); err != nil {
			return
		}
		f := readFrame(c)
		if f == nil {
			cl.heldBack = true
			return
		}
		cl.got = append(cl.got, f)
		c.SetDeadline(time.Unix(rt.EpochUnix, 0).Add(time.Duration(rt.Now() + 40e9)))
		stream = stream[first+cl.splitWait:]
	}
	if _, err := c.Write(stream); err != nil {
		return
	}
	if cl.trigger != nil {
		cl.trigger.Set()
	}
	if cl.noread {
		// the server's responses pile up against this client's tiny receive window: its handler ends up
		// blocked in conn.Write, which is where Stop() has to be able to interrupt it
		rt.SleepUntil(rt.Now() + 1e6)
		return
	}
	cl.sentAll = true
	for len(cl.got) < len(cl.reqs) {
		f := readFrame(c)
		if f == nil {
			return
		}
		cl.got = append(cl.got, f)
	}
}

// nbStopBound: "promptly" for the NBNS servers. On the pinned tree Stop() needs no simulated time at all
// (closing the sockets wakes every blocked loop). The bound leaves room for a bounded drain of in-flight
// handlers (a second or two) and flags a Stop that has to wait out an I/O timeout (5 s UDP read, 30 s TCP).
const nbStopBound = int64(3e9)

const churnName = "CHURNGRP"

var churnMembers = [...]net.IP{{10, 9, 0, 1}, {10, 9, 0, 2}, {10, 9, 0, 3}}

// One round of the churn: always release the member that is first in the owner list, then register it again
// (it re-enters at the end), so every release shifts the list. After three release/register pairs the group
// is back in its initial state.
var churnCycle = [...]struct{ op, m int }{{6, 0}, {5, 0}, {6, 1}, {5, 1}, {6, 2}, {5, 2}}

// churnNoiseReq: one registration request with two records -- the churn group for a node that is a member of it right
// now, and a unique name held by another node. The second record must be refused; whatever the server does about the
// first, that member's existing membership is not the request's to take away.
const claimName = "CLAIMEDNAME"
const churnUniq = "CHURNUNIQ"

var churnUniqIP = net.IP{10, 9, 0, 9}
var churnNoiseRcodes []int

func churnNoiseReq(id uint16, m net.IP) []byte {
	p := &nbtns.NBTNSPacket{Header: nbtns.NBTNSHeader{TransactionID: id, Flags: 5<<11 | 0x0080, Answers: 2}}
	for _, n := range []string{churnName, churnUniq} {
		p.Answers = append(p.Answers, nbtns.NBTNSResourceRecord{Name: &nbtns.NetBIOSName{Name: n}, Type: 0x20, Class: 1, TTL: 86400, RDLength: uint16(len(m)), RData: m})
	}
	b, err := p.Marshal()
	if err != nil {
		panic("harness: cannot marshal request: " + err.Error())
	}
	return b
}

func churnReq(id uint16, op int, m net.IP) []byte {
	flags := uint16(0)
	if op == 5 {
		flags = 0x0080 // group registration
	}
	return buildRequest(id, op, flags, nil, churnName, m, 86400, false)
}

// churnOp performs one churn step on the quiescent server (setup).
func churnOp(sys *nbSystem, kind, op int, m net.IP) {
	if kind == 2 {
		if op == 5 {
			sys.table.RegisterName(churnName, nbtns.Group, m, 24*time.Hour)
		} else {
			sys.table.ReleaseName(churnName, m)
		}
		return
	}
	udpExchange(churnReq(0x0440, op, m), 3*time.Second)
}

// churner walks the churn cycle during the concurrent phase. Every step is repeated until the server
// acknowledged it (the operations are idempotent); false = a step was never acknowledged or had to be repeated.
// churnRcodes collects the response code of every acknowledged churn step (harness-private, read after the run).
var churnRcodes []int

func churner(tcp bool, rounds int, noise bool) bool {
	id := uint16(0x0600)
	churnRcodes = churnRcodes[:0]
	churnNoiseRcodes = churnNoiseRcodes[:0]
	if noise {
		rt.Probe(PChurnNoise)
	}
	if tcp {
		c, err := simnet.Dial("tcp", serverHost+":137")
		if err != nil {
			return false
		}
		defer c.Close()
		c.SetDeadline(time.Unix(rt.EpochUnix, 0).Add(time.Duration(rt.Now() + 40e9)))
		for r := 0; r < rounds; r++ {
			for _, st := range churnCycle {
				id++
				req := churnReq(id, st.op, churnMembers[st.m])
				fr := make([]byte, 2, 2+len(req))
				binary.BigEndian.PutUint16(fr, uint16(len(req)))
				if _, err := c.Write(append(fr, req...)); err != nil {
					return false
				}
				f := readFrame(c)
				if f == nil {
					return false
				}
				churnRcodes = append(churnRcodes, parseResponse(f).rcode)
				if noise {
					id++
					req := churnNoiseReq(id, churnMembers[(st.m+1)%len(churnMembers)])
					fr := make([]byte, 2, 2+len(req))
					binary.BigEndian.PutUint16(fr, uint16(len(req)))
					if _, err := c.Write(append(fr, req...)); err != nil {
						return false
					}
					f := readFrame(c)
					if f == nil {
						return false
					}
					churnNoiseRcodes = append(churnNoiseRcodes, parseResponse(f).rcode)
				}
			}
		}
		return true
	}
	retried := false
	for r := 0; r < rounds; r++ {
		for _, st := range churnCycle {
			acked := false
			for try := 0; try < 4 && !acked; try++ {
				if try > 0 {
					// the unanswered copy may still be sitting in a stalled handler and be applied later, out of
					// order: from here on the group may be off the cycle
					retried = true
				}
				id++
				resp := udpExchange(churnReq(id, st.op, churnMembers[st.m]), time.Second)
				acked = resp != nil
				if acked && try == 0 {
					churnRcodes = append(churnRcodes, parseResponse(resp).rcode)
				}
			}
			if !acked {
				return false
			}
			if noise {
				id++
				if resp := udpExchange(churnNoiseReq(id, churnMembers[(st.m+1)%len(churnMembers)]), time.Second); resp != nil {
					churnNoiseRcodes = append(churnNoiseRcodes, parseResponse(resp).rcode)
				}
			}
		}
	}
	return !retried
}

func describeAll(set [][]byte) string {
	s := ""
	for i, a := range set {
		if i > 0 {
			s += " | "
		}
		s += describeResp(a)
	}
	return s
}

func describeOrNone(b []byte) string {
	if b == nil {
		return "no answer"
	}
	return describeResp(b)
}
