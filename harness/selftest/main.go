// selftest runs the simulator against a synthetic SUT (sim/selftest/sut, rewritten by simgen like the
// Manticore packages) and checks the simulator itself: rewritten constructs behave like Go, simulated
// time adds up, blocking primitives block and wake, deadlocks are detected and never hang, a select
// with two ready cases takes either, identical seeds give identical runs, and -- in a race build --
// the race detector stays silent on correctly synchronised code and reports the unsynchronised counter.
package main

import (
	"fmt"
	"os"
	"strings"
	"time"

	"verif.local/sim/rt"
	"verif.local/sim/selftest/sut"
)

type outcome struct {
	verdict *rt.Verdict
	hash    uint64
	val     any
}

func run(seed uint64, preempt uint32, f func() any) outcome {
	var bias [rt.NumKinds]uint32
	bias[rt.KGap] = preempt
	bias[rt.KSched] = 20000
	w := rt.NewWorld(rt.Config{Seed: seed, NPoints: 4096, Bias: bias, MaxSteps: 2_000_000})
	var o outcome
	o.verdict = w.Run(func() { o.val = f() })
	o.hash = w.Hash()
	return o
}

var failures int

func check(name string, ok bool, format string, a ...any) {
	if !ok {
		failures++
		fmt.Printf("FAIL %s: %s\n", name, fmt.Sprintf(format, a...))
	}
}

func raceLogSize(path string) int64 {
	fi, err := os.Stat(path)
	if err != nil {
		return 0
	}
	return fi.Size()
}

func main() {
	os.Stdout.Sync()
	out := os.Stdout
	_ = out
	raceLog := ""
	for _, f := range strings.Fields(os.Getenv("GORACE")) {
		if strings.HasPrefix(f, "log_path=") {
			raceLog = fmt.Sprintf("%s.%d", strings.TrimPrefix(f, "log_path="), os.Getpid())
		}
	}
	const seeds = 600
	selectSeen := map[int]int{}
	deadlocks, clean := 0, 0
	for s := uint64(1); s <= seeds; s++ {
		pre := []uint32{0, 3000, 20000, 50000}[s%4]

		o := run(s, pre, func() any { return sut.PingPong(20) })
		// sum of i (0..19) + sum of (i+1)
		check("pingpong", o.verdict == nil && o.val == 190+210, "seed %d: %v %v", s, o.verdict, o.val)
		o2 := run(s, pre, func() any { return sut.PingPong(20) })
		check("determinism", o.hash == o2.hash, "seed %d: two executions differ (%x vs %x)", s, o.hash, o2.hash)

		o = run(s, pre, func() any {
			in := make(chan int, 16)
			quit := make(chan struct{})
			for i := 1; i <= 10; i++ {
				in <- i
			}
			close(in)
			a, b := sut.LabeledLoop(in, quit)
			return [2]int{a, b}
		})
		check("labeled-loop", o.verdict == nil && o.val == [2]int{55 - 18, 3}, "seed %d: %v %v", s, o.verdict, o.val)

		o = run(s, pre, func() any { return (&sut.Counter{}).Run(6, 50, true) })
		check("locked-counter", o.verdict == nil && o.val == 300, "seed %d: %v %v", s, o.verdict, o.val)

		o = run(s, pre, func() any {
			e, ticks, af := sut.Timers(5, 100*time.Millisecond)
			return fmt.Sprint(e, ticks, af)
		})
		check("timers", o.verdict == nil && o.val == "700ms 5 true", "seed %d: %v %v", s, o.verdict, o.val)

		o = run(s, pre, func() any { return sut.ProduceConsume(10, 3) })
		// 3 producers: base 0,1000,2000, each 0..9
		check("cond-queue", o.verdict == nil && o.val == 3*45+10*(0+1000+2000), "seed %d: %v %v", s, o.verdict, o.val)

		o = run(s, pre, func() any { return sut.SelectBoth() })
		if o.verdict == nil {
			selectSeen[o.val.(int)]++
		}

		o = run(s, pre, func() any { sut.DeadlockAB(); return nil })
		if o.verdict != nil && o.verdict.Class == "deadlock" {
			deadlocks++
		} else if o.verdict == nil {
			clean++
		} else {
			check("deadlock-ab", false, "seed %d: unexpected verdict %v", s, o.verdict)
		}

		o = run(s, pre, func() any {
			p, sm := sut.MapOrder()
			return strings.Join(p, ",") + "|" + strings.Join(sm, ",")
		})
		check("map-order", o.verdict == nil && o.val == "alpha,bravo,charlie,delta|x,a,m", "seed %d: %v %v", s, o.verdict, o.val)

		o = run(s, pre, func() any {
			r, reused := sut.OnceAndPool(5)
			return fmt.Sprint(r, reused)
		})
		check("once-pool", o.verdict == nil && (o.val == "1 true" || o.val == "1 false"), "seed %d: %v %v", s, o.verdict, o.val)

		o = run(s, pre, func() any {
			m, saw := sut.RWReaders(4)
			return fmt.Sprint(m >= 1, saw)
		})
		check("rwmutex", o.verdict == nil && o.val == "true false", "seed %d: %v %v", s, o.verdict, o.val)
	}
	check("select-both", selectSeen[1] > 20 && selectSeen[2] > 20, "a select with two ready cases should take either: %v", selectSeen)
	check("deadlock-found", deadlocks >= 3 && clean > 10, "opposite lock orders: %d deadlocks, %d clean runs in %d seeds", deadlocks, clean, seeds)

	if rt.RaceBuild && raceLog != "" {
		before := raceLogSize(raceLog)
		check("race-silent", before == 0, "the race detector reported something on correctly synchronised code (%d bytes in %s)", before, raceLog)
		reported := false
		for s := uint64(1); s <= 40 && !reported; s++ {
			run(s, 40000, func() any { return (&sut.Counter{}).Run(4, 20, false) })
			reported = raceLogSize(raceLog) > before
		}
		check("race-reported", reported, "the race detector did not report the unsynchronised counter")
		if reported {
			b, _ := os.ReadFile(raceLog)
			check("race-attribution", strings.Contains(string(b), "sut.(*Counter).Run"), "the report does not name the SUT function")
		}
	}
	if failures > 0 {
		fmt.Printf("simulator self-test: %d failure(s)\n", failures)
		os.Exit(1)
	}
	fmt.Printf("simulator self-test ok (%d seeds x 12 scenarios; select took each ready case %v times; %d/%d opposite-lock-order runs deadlocked and were detected; race build=%v)\n",
		seeds, selectSeen, deadlocks, seeds, rt.RaceBuild)
}
