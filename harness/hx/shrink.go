package hx

import "time"

// Minimise shrinks a choice stream by delta debugging while try() keeps
// reporting the same violation. try returns the normalised stream the run
// actually consumed (may be shorter) and whether the violation recurred.
// KindsOf, when set by the caller, returns the kind of every entry of a stream the run consumed last
// (parallel to the normalised stream returned by try); it enables the kind-wise passes.
type Run func([]uint32) (norm []uint32, kinds []uint8, ok bool)

// MinimiseKinds first tries to switch whole fault kinds off (all choices of a kind -> the boring value),
// which removes irrelevant faults and preemptions from the trace wholesale, then runs Minimise.
func MinimiseKinds(start []uint32, run Run, order []uint8, deadline time.Time, maxTries int) (best []uint32, tried int) {
	cur := append([]uint32(nil), start...)
	norm, kinds, ok := run(cur)
	tried++
	if !ok {
		return start, tried
	}
	if norm != nil {
		cur = append([]uint32(nil), norm...)
	}
	for _, k := range order {
		if time.Now().After(deadline) || tried >= maxTries {
			break
		}
		c := append([]uint32(nil), cur...)
		changed := false
		for i := range c {
			if i < len(kinds) && kinds[i] == k && c[i] != 0 {
				c[i] = 0
				changed = true
			}
		}
		if !changed {
			continue
		}
		n2, k2, ok := run(c)
		tried++
		if ok {
			cur = c
			if n2 != nil {
				cur = append([]uint32(nil), n2...)
			}
			kinds = k2
		}
	}
	b, t := Minimise(cur, func(ch []uint32) ([]uint32, bool) {
		n, _, ok := run(ch)
		return n, ok
	}, deadline, maxTries-tried)
	return b, tried + t
}

func Minimise(start []uint32, try func([]uint32) ([]uint32, bool), deadline time.Time, maxTries int) (best []uint32, tried int) {
	trim := func(ch []uint32) []uint32 {
		n := len(ch)
		for n > 0 && ch[n-1] == 0 {
			n--
		}
		return ch[:n]
	}
	cur := trim(append([]uint32(nil), start...))
	attempt := func(ch []uint32) bool {
		if tried >= maxTries || time.Now().After(deadline) {
			return false
		}
		tried++
		ch = trim(ch)
		norm, ok := try(ch)
		if !ok {
			return false
		}
		if norm != nil && len(trim(norm)) <= len(ch) {
			ch = trim(append([]uint32(nil), norm...))
		}
		cur = ch
		return true
	}
	stop := func() bool { return tried >= maxTries || time.Now().After(deadline) }

	for round := 0; round < 6 && !stop(); round++ {
		before := len(cur)
		sumBefore := uint64(0)
		for _, v := range cur {
			sumBefore += uint64(v)
		}
		// 1. shortest prefix
		lo, hi := 0, len(cur)
		for lo < hi && !stop() {
			mid := (lo + hi) / 2
			if attempt(append([]uint32(nil), cur[:mid]...)) {
				hi = len(cur)
				if hi > mid {
					hi = mid
				}
			} else {
				lo = mid + 1
			}
		}
		// 2. delete blocks, 3. zero blocks
		for size := len(cur) / 2; size >= 1 && !stop(); size /= 2 {
			for start := 0; start < len(cur) && !stop(); {
				end := start + size
				if end > len(cur) {
					end = len(cur)
				}
				c := append([]uint32(nil), cur[:start]...)
				c = append(c, cur[end:]...)
				if attempt(c) {
					continue // same start, the stream moved left
				}
				allZero := true
				for _, v := range cur[start:end] {
					if v != 0 {
						allZero = false
					}
				}
				if !allZero {
					z := append([]uint32(nil), cur...)
					for i := start; i < end; i++ {
						z[i] = 0
					}
					attempt(z)
				}
				start += size
			}
		}
		// 4. lower single values
		for i := 0; i < len(cur) && !stop(); i++ {
			v := cur[i]
			if v <= 1 {
				continue
			}
			for _, nv := range []uint32{1, v / 2, v - 1} {
				if nv < v && nv > 0 && i < len(cur) && cur[i] == v {
					c := append([]uint32(nil), cur...)
					c[i] = nv
					if attempt(c) {
						break
					}
				}
			}
		}
		sumAfter := uint64(0)
		for _, v := range cur {
			sumAfter += uint64(v)
		}
		if len(cur) == before && sumAfter == sumBefore {
			break
		}
	}
	return cur, tried
}
