package hx

import "time"

// Minimise shrinks a choice stream by delta debugging while try() keeps
// reporting the same violation. try returns the normalised stream the run
// actually consumed (may be shorter) and whether the violation recurred.
func Minimise(start []uint32, try func([]uint32) ([]uint32, bool), deadline time.Time, maxTries int) (best []uint32, tried int) {
	trim := func(ch []uint32) []uint32 {
		n := len(ch)
		for n > 0 && ch[n-1] == 0 {
			n--
		}
		return ch[:n]
	}
	cur := trim(append([]uint32(nil), start...))
	attempt := func(ch []uint32) bool {
		if tried >= maxTries || time.Now().After(deadline) {
			return false
		}
		tried++
		ch = trim(ch)
		norm, ok := try(ch)
		if !ok {
			return false
		}
		if norm != nil && len(trim(norm)) <= len(ch) {
			ch = trim(append([]uint32(nil), norm...))
		}
		cur = ch
		return true
	}
	stop := func() bool { return tried >= maxTries || time.Now().After(deadline) }

	for round := 0; round < 6 && !stop(); round++ {
		before := len(cur)
		sumBefore := uint64(0)
		for _, v := range cur {
			sumBefore += uint64(v)
		}
		// 1. shortest prefix
		lo, hi := 0, len(cur)
		for lo < hi && !stop() {
			mid := (lo + hi) / 2
			if attempt(append([]uint32(nil), cur[:mid]...)) {
				hi = len(cur)
				if hi > mid {
					hi = mid
				}
			} else {
				lo = mid + 1
			}
		}
		// 2. delete blocks, 3. zero blocks
		for size := len(cur) / 2; size >= 1 && !stop(); size /= 2 {
			for start := 0; start < len(cur) && !stop(); {
				end := start + size
				if end > len(cur) {
					end = len(cur)
				}
				c := append([]uint32(nil), cur[:start]...)
				c = append(c, cur[end:]...)
				if attempt(c) {
					continue // same start, the stream moved left
				}
				allZero := true
				for _, v := range cur[start:end] {
					if v != 0 {
						allZero = false
					}
				}
				if !allZero {
					z := append([]uint32(nil), cur...)
					for i := start; i < end; i++ {
						z[i] = 0
					}
					attempt(z)
				}
				start += size
			}
		}
		// 4. lower single values
		for i := 0; i < len(cur) && !stop(); i++ {
			v := cur[i]
			if v <= 1 {
				continue
			}
			for _, nv := range []uint32{1, v / 2, v - 1} {
				if nv < v && nv > 0 && i < len(cur) && cur[i] == v {
					c := append([]uint32(nil), cur...)
					c[i] = nv
					if attempt(c) {
						break
					}
				}
			}
		}
		sumAfter := uint64(0)
		for _, v := range cur {
			sumAfter += uint64(v)
		}
		if len(cur) == before && sumAfter == sumBefore {
			break
		}
	}
	return cur, tried
}
