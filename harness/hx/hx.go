// Package hx holds what the three property harnesses share: run results,
// swarm configuration, generation helpers.
package hx

import (
	"fmt"

	"verif.local/sim/rt"
)

// Violation is what a run reports when an oracle fails.
type Violation struct {
	Class string `json:"class"`
	Key   string `json:"key"`
	Msg   string `json:"msg"`
	// AltKeys: further keys reported in the same run (data races: every distinct report of the run)
	AltKeys []string `json:"alt_keys,omitempty"`
}

// Result of one simulated run.
type Result struct {
	Property   string           `json:"property"`
	Scenario   string           `json:"scenario"`
	Index      int64            `json:"index"`
	Seed       uint64           `json:"seed"`
	Hash       uint64           `json:"hash"`
	Steps      int64            `json:"steps"`
	SimNs      int64            `json:"sim_ns"`
	NonTrivial bool             `json:"nontrivial"`
	Violation  *Violation       `json:"violation,omitempty"`
	Inconcl    string           `json:"inconclusive,omitempty"`
	Discarded  string           `json:"discarded,omitempty"`
	Choices    []uint32         `json:"choices,omitempty"`
	Kinds      []uint8          `json:"kinds,omitempty"`
	Trace      []string         `json:"trace,omitempty"`
	Sample     any              `json:"sample,omitempty"`
	Stats      rt.Stats         `json:"-"`
	Extra      map[string]int64 `json:"extra,omitempty"`
	States     []uint64         `json:"-"`
	Points     []uint32         `json:"-"`
}

// Opts are per-invocation knobs coming from the worker command line.
type Opts struct {
	Verbose  bool
	Replay   []uint32
	NPoints  int
	Scenario string // force a scenario ("" = generated)
	Param    map[string]int64
}

// G draws a workload-generation choice.
func G(n int) int { return rt.Choose(n, rt.KGen) }

// F draws a fault-placement choice.
func F(n int) int { return rt.Choose(n, rt.KFault) }

// Swarm derives the per-run generation biases from the seed (ignored in replay mode).
func Swarm(seed uint64, enable [rt.NumKinds]bool) [rt.NumKinds]uint32 {
	var b [rt.NumKinds]uint32
	x := seed*0x9E3779B97F4A7C15 ^ 0xD1B54A32D192ED03
	next := func() uint64 {
		x += 0x9E3779B97F4A7C15
		z := x
		z = (z ^ (z >> 30)) * 0xBF58476D1CE4E5B9
		z = (z ^ (z >> 27)) * 0x94D049BB133111EB
		return z ^ (z >> 31)
	}
	levels := [...]uint32{0, 650, 3300, 6500, 20000, 40000}
	for k := rt.Kind(0); k < rt.NumKinds; k++ {
		if !enable[k] {
			continue
		}
		b[k] = levels[next()%uint64(len(levels))]
	}
	// preemption density: 0 / low / mid / high
	b[rt.KGap] = [...]uint32{0, 2000, 12000, 40000}[next()%4]
	if !enable[rt.KGap] {
		b[rt.KGap] = 0
	}
	// scheduler: probability of not continuing the current task at a yield
	b[rt.KSched] = [...]uint32{0, 6500, 30000, 50000}[next()%4]
	if SwarmPCT(seed) && b[rt.KGap] > 3000 {
		b[rt.KGap] = 3000 // PCT: few priority change points per run
	}
	if enable[rt.KStall] {
		b[rt.KStall] = [...]uint32{0, 0, 2000, 10000}[next()%4]
	}
	if enable[rt.KTimeSkip] {
		b[rt.KTimeSkip] = [...]uint32{0, 0, 300, 2000}[next()%4]
	}
	return b
}

// PCTShare: one run in PCTShare uses the priority-based (PCT) scheduler (set per property by its harness).
var PCTShare uint64 = 3

// SwarmPCT decides from the seed whether a run uses the priority-based (PCT) scheduler.
func SwarmPCT(seed uint64) bool {
	x := seed*0xD1B54A32D192ED03 + 0x2545F4914F6CDD1D
	x ^= x >> 31
	x *= 0x9E3779B97F4A7C15
	x ^= x >> 29
	return x%PCTShare == 0
}

func AllKinds() [rt.NumKinds]bool {
	var e [rt.NumKinds]bool
	for i := range e {
		e[i] = true
	}
	return e
}

// Finish fills the bookkeeping fields of a result from the world.
func Finish(res *Result, w *rt.World, v *rt.Verdict, keepChoices bool) {
	res.Hash = w.Hash()
	res.Stats = w.Stats
	res.Steps = w.Stats.Steps
	if v != nil && res.Violation == nil {
		res.Violation = &Violation{Class: v.Class, Key: v.Key, Msg: v.Msg}
	}
	res.Choices, res.Kinds = w.Recorded()
	res.Points = w.Points
	if w.Verbose() {
		res.Trace = w.Trace()
	}
}

func Sprintf(f string, a ...any) string { return fmt.Sprintf(f, a...) }
