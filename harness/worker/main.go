// worker executes a slice of simulated runs of one property inside one OS
// process (one simulator per process) and reports JSON lines.
package main

import (
	"bufio"
	"encoding/json"
	"flag"
	"fmt"
	"os"
	"regexp"
	"sort"
	"strings"
	"time"

	"verif.local/harness/c11"
	"verif.local/harness/c17"
	"verif.local/harness/c18"
	"verif.local/harness/hx"
	"verif.local/sim/rt"
)

type runFn func(seed uint64, index int64, o hx.Opts) *hx.Result

var props = map[string]runFn{
	"C11": c11.Run,
	"C17": c17.Run,
	"C18": c18.Run,
}

// Summary is the last line a worker prints.
type Summary struct {
	Kind        string            `json:"kind"` // "summary"
	Property    string            `json:"property"`
	From, To    int64             `json:"-"`
	Runs        int64             `json:"runs"`
	NonTrivial  int64             `json:"nontrivial"`
	Violations  int64             `json:"violations"`
	Inconcl     int64             `json:"inconclusive"`
	Discarded   int64             `json:"discarded"`
	Steps       int64             `json:"steps"`
	SimNs       int64             `json:"sim_ns"`
	Hashes      []uint64          `json:"hashes"`     // distinct interleaving signatures of non-trivial runs
	AllHashes   int64             `json:"all_hashes"` // distinct signatures overall
	States      []uint64          `json:"states,omitempty"`
	Choices     map[string]int64  `json:"choices"`
	NonBoring   map[string]int64  `json:"nonboring"`
	Probes      map[string]int64  `json:"probes"`
	Counters    map[string]int64  `json:"counters"`
	Points      map[string]uint32 `json:"points"`
	Scenarios   map[string]int64  `json:"scenarios"`
	Extra       map[string]int64  `json:"extra"`
	WallS       float64           `json:"wall_s"`
	RaceIgnored int64             `json:"race_reports_without_sut_frame"`
	IndexHash   map[string]uint64 `json:"index_hash,omitempty"` // for the determinism self-test
}

func mixSeed(base uint64, idx int64) uint64 {
	z := base + uint64(idx)*0x9E3779B97F4A7C15 + 0x632BE59BD9B4E019
	z = (z ^ (z >> 30)) * 0xBF58476D1CE4E5B9
	z = (z ^ (z >> 27)) * 0x94D049BB133111EB
	return z ^ (z >> 31)
}

var raceLogPath string
var raceLogOff int64

func raceLogSize() int64 {
	if raceLogPath == "" {
		return 0
	}
	fi, err := os.Stat(raceLogPath)
	if err != nil {
		return 0
	}
	return fi.Size()
}

func raceLogRead(from, to int64) string {
	if to <= from {
		return ""
	}
	f, err := os.Open(raceLogPath)
	if err != nil {
		return ""
	}
	defer f.Close()
	buf := make([]byte, to-from)
	n, _ := f.ReadAt(buf, from)
	return string(buf[:n])
}

var funcLine = regexp.MustCompile(`^\s+([^\s(][^\s]*)\(\)\s*$`)

// raceKey extracts a line-free key from the first report in text: the innermost Manticore
// function of each of the two conflicting accesses. ok=false if no SUT frame is involved.
func raceKey(text string) (key string, report string, ok bool) {
	keys, reports := raceKeys(text)
	if len(keys) == 0 {
		return "", "", false
	}
	return keys[0], reports[0], true
}

// raceKeys returns the keys of all reports in text that involve SUT code.
func raceKeys(text string) (keys []string, reports []string) {
	parts := strings.Split(text, "==================")
	for _, p := range parts {
		if k, r, ok := raceKey1("==================" + p + "=================="); ok {
			dup := false
			for _, x := range keys {
				if x == k {
					dup = true
				}
			}
			if !dup {
				keys = append(keys, k)
				reports = append(reports, r)
			}
		}
	}
	return
}

func raceKey1(text string) (key string, report string, ok bool) {
	parts := strings.Split(text, "==================")
	for _, p := range parts {
		if !strings.Contains(p, "WARNING: DATA RACE") {
			continue
		}
		// the two access stacks are the first two blank-line separated blocks
		blocks := strings.Split(strings.TrimSpace(p), "\n\n")
		var sites []string
		for bi, b := range blocks {
			if bi >= 2 {
				break
			}
			// the access is attributed to the first frame that is neither the Go runtime nor a simulator shim:
			// SUT code (a Manticore package) or harness code
			site := ""
			for _, ln := range strings.Split(b, "\n") {
				m := funcLine.FindStringSubmatch(ln)
				if m == nil {
					continue
				}
				fn := m[1]
				if strings.HasPrefix(fn, "runtime.") || strings.HasPrefix(fn, "verif.local/sim/") || strings.HasPrefix(fn, "io.") || strings.HasPrefix(fn, "bytes.") || strings.HasPrefix(fn, "encoding/") {
					continue
				}
				if strings.Contains(fn, "TheManticoreProject/Manticore/") {
					site = strings.TrimSuffix(fn[strings.LastIndex(fn, "/")+1:], "-fm")
				}
				break
			}
			sites = append(sites, site)
		}
		any := false
		for _, s := range sites {
			if s != "" {
				any = true
			}
		}
		if !any {
			continue
		}
		for i := range sites {
			if sites[i] == "" {
				sites[i] = "harness"
			}
		}
		sort.Strings(sites)
		return strings.Join(sites, "|"), strings.TrimSpace(p), true
	}
	return "", "", false
}

func main() {
	prop := flag.String("prop", "", "property id")
	seed := flag.Uint64("seed", 20260927, "base seed")
	from := flag.Int64("from", 0, "first run index")
	to := flag.Int64("to", 1, "one past the last run index")
	replay := flag.String("replay", "", "replay file (a violation record)")
	verbose := flag.Bool("verbose", false, "record the readable trace")
	points := flag.Int("npoints", 4096, "number of instrumentation points")
	outPath := flag.String("out", "", "output file (default stdout)")
	scenario := flag.String("scenario", "", "force a scenario")
	params := flag.String("params", "", "scenario parameters k=v,k=v")
	budget := flag.Float64("budget", 0, "wall-clock budget in seconds (0 = none)")
	hashes := flag.Int64("indexhash", 0, "emit per-index hashes for indexes below N (determinism self-test)")
	shrink := flag.String("shrink", "", "minimise the violation in this replay file in-process and print the result")
	samples := flag.Int("samples", 2, "number of complete sample runs to emit")
	enumSize := flag.Bool("enumsize", false, "print the size of the property's exhaustive enumeration and exit")
	flag.Parse()
	if *enumSize {
		switch *prop {
		case "C11":
			if *scenario == "lenenum" {
				fmt.Println(c11.LenEnumSize())
			} else {
				fmt.Println(c11.EnumSize())
			}
		case "C17":
			if *scenario == "bulkenum" {
				fmt.Println(c17.BulkEnumSize())
			} else {
				fmt.Println(0)
			}
		case "C18":
			if *scenario == "stopenum" {
				fmt.Println(c18.StopEnumSize())
			} else if *scenario == "stopenum2" {
				fmt.Println(c18.StopEnum2Size())
			} else if *scenario == "reqpair" {
				fmt.Println(c18.ReqPairSize())
			} else {
				fmt.Println(c18.EnumSize())
			}
		default:
			fmt.Println(0)
		}
		return
	}

	run, ok := props[*prop]
	if !ok {
		fmt.Fprintln(os.Stderr, "worker: unknown property", *prop)
		os.Exit(2)
	}
	out := os.Stdout
	if *outPath != "" {
		f, err := os.Create(*outPath)
		if err != nil {
			fmt.Fprintln(os.Stderr, "worker:", err)
			os.Exit(2)
		}
		out = f
	}
	bw := bufio.NewWriterSize(out, 1<<20)
	defer bw.Flush()
	enc := json.NewEncoder(bw)
	// the SUT prints through fmt.Printf: a nil os.Stdout makes that a no-op without any locking
	os.Stdout = nil

	if gr := os.Getenv("GORACE"); gr != "" {
		for _, f := range strings.Fields(gr) {
			if strings.HasPrefix(f, "log_path=") {
				raceLogPath = fmt.Sprintf("%s.%d", strings.TrimPrefix(f, "log_path="), os.Getpid())
			}
		}
	}

	opts := hx.Opts{Verbose: *verbose, NPoints: *points, Scenario: *scenario, Param: map[string]int64{}}
	if *params != "" {
		for _, kv := range strings.Split(*params, ",") {
			var k string
			var v int64
			if i := strings.IndexByte(kv, '='); i > 0 {
				k = kv[:i]
				fmt.Sscan(kv[i+1:], &v)
				opts.Param[k] = v
			}
		}
	}

	if *shrink != "" {
		os.Exit(doShrink(run, *shrink, opts, enc, bw))
	}
	if *replay != "" {
		os.Exit(doReplay(run, *replay, opts, enc, bw))
	}

	sum := &Summary{Kind: "summary", Property: *prop, Choices: map[string]int64{}, NonBoring: map[string]int64{}, Probes: map[string]int64{},
		Counters: map[string]int64{}, Scenarios: map[string]int64{}, Extra: map[string]int64{}, Points: map[string]uint32{}}
	if *hashes > 0 {
		sum.IndexHash = map[string]uint64{}
	}
	pointAcc := make([]uint32, *points+1)
	ntHashes := map[uint64]struct{}{}
	allHashes := map[uint64]struct{}{}
	states := map[uint64]struct{}{}
	start := time.Now()
	emitted := 0
	for idx := *from; idx < *to; idx++ {
		if *budget > 0 && time.Since(start).Seconds() > *budget {
			break
		}
		s := mixSeed(*seed, idx)
		before := raceLogSize()
		res := runOne(run, s, idx, opts)
		after := raceLogSize()
		if after > before && res.Violation == nil {
			text := raceLogRead(before, after)
			if keys, reps := raceKeys(text); len(keys) > 0 {
				res.Violation = &hx.Violation{Class: "data_race", Key: keys[0], Msg: reps[0], AltKeys: keys[1:]}
			} else {
				sum.RaceIgnored++
			}
		}
		sum.Runs++
		sum.Steps += res.Steps
		sum.SimNs += res.SimNs
		sum.Scenarios[res.Scenario]++
		allHashes[res.Hash] = struct{}{}
		if res.NonTrivial {
			sum.NonTrivial++
			ntHashes[res.Hash] = struct{}{}
		}
		for _, st := range res.States {
			states[st] = struct{}{}
		}
		if sum.IndexHash != nil && idx < *hashes {
			sum.IndexHash[fmt.Sprint(idx)] = res.Hash
		}
		for k := rt.Kind(0); k < rt.NumKinds; k++ {
			sum.Choices[rt.KindNames[k]] += res.Stats.Choices[k]
			sum.NonBoring[rt.KindNames[k]] += res.Stats.NonBoring[k]
		}
		for i, n := range res.Stats.Probes {
			if n != 0 {
				sum.Probes[probeName(*prop, i)] += n
			}
		}
		sum.Counters["preemptions"] += res.Stats.Preemptions
		sum.Counters["context_switches"] += res.Stats.Switches
		sum.Counters["events_fired"] += res.Stats.Events
		sum.Counters["time_skips"] += res.Stats.TimeSkips
		sum.Counters["stalls_after_send"] += res.Stats.Stalls
		sum.Counters["clock_jumps"] += res.Stats.ClockJumps
		sum.Counters["tasks"] += res.Stats.Tasks
		for k, v := range res.Extra {
			sum.Extra[k] += v
		}
		for i, n := range res.Points {
			if n != 0 {
				pointAcc[i] += n
			}
		}
		switch {
		case res.Violation != nil:
			sum.Violations++
			res.Sample = nil
			enc.Encode(map[string]any{"kind": "violation", "run": res})
		case res.Inconcl != "":
			sum.Inconcl++
			enc.Encode(map[string]any{"kind": "inconclusive", "run": res})
		case res.Discarded != "":
			sum.Discarded++
		default:
			res.Kinds = nil
			if emitted < *samples && res.NonTrivial && res.Sample != nil {
				emitted++
				enc.Encode(map[string]any{"kind": "sample", "run": res})
			}
		}
	}
	for i, n := range pointAcc {
		if n != 0 {
			sum.Points[fmt.Sprint(i)] = n
		}
	}
	for h := range ntHashes {
		sum.Hashes = append(sum.Hashes, h)
	}
	for s := range states {
		sum.States = append(sum.States, s)
	}
	sum.AllHashes = int64(len(allHashes))
	sum.WallS = time.Since(start).Seconds()
	enc.Encode(sum)
}

func runOne(run runFn, seed uint64, idx int64, o hx.Opts) *hx.Result {
	res := run(seed, idx, o)
	return res
}

func probeName(prop string, i int) string {
	if i < rt.PUser {
		return rt.SimProbeNames[i]
	}
	var m map[int]string
	switch prop {
	case "C11":
		m = c11.ProbeNames
	case "C17":
		m = c17.ProbeNames
	case "C18":
		m = c18.ProbeNames
	}
	if n, ok := m[i]; ok {
		return n
	}
	return fmt.Sprintf("probe%d", i)
}

// ReplayFile is what the driver writes to /verif/replays.
type ReplayFile struct {
	Property string           `json:"property"`
	Class    string           `json:"class"`
	Key      string           `json:"key"`
	Message  string           `json:"message"`
	Seed     uint64           `json:"seed"`
	Index    int64            `json:"index"`
	Scenario string           `json:"scenario"`
	Params   map[string]int64 `json:"params,omitempty"`
	Forced   string           `json:"forced_scenario,omitempty"`
	Choices  []uint32         `json:"choices"`
	Hash     uint64           `json:"hash"`
	Trace    []string         `json:"trace,omitempty"`
	Source   string           `json:"src_digest,omitempty"`
}

func doReplay(run runFn, path string, o hx.Opts, enc *json.Encoder, bw *bufio.Writer) int {
	raw, err := os.ReadFile(path)
	if err != nil {
		fmt.Fprintln(os.Stderr, "worker:", err)
		return 2
	}
	var rf ReplayFile
	if err := json.Unmarshal(raw, &rf); err != nil {
		fmt.Fprintln(os.Stderr, "worker: replay file:", err)
		return 2
	}
	o.Replay = rf.Choices
	if o.Replay == nil {
		o.Replay = []uint32{}
	}
	if rf.Forced != "" {
		o.Scenario = rf.Forced
	}
	for k, v := range rf.Params {
		o.Param[k] = v
	}
	before := raceLogSize()
	res := run(rf.Seed, rf.Index, o)
	after := raceLogSize()
	if after > before && res.Violation == nil {
		if keys, reps := raceKeys(raceLogRead(before, after)); len(keys) > 0 {
			res.Violation = &hx.Violation{Class: "data_race", Key: keys[0], Msg: reps[0], AltKeys: keys[1:]}
			// a replay asks for one particular race: report it under that key if this run shows it at all
			for i, k := range keys {
				if k == rf.Key {
					res.Violation.Key, res.Violation.Msg = k, reps[i]
				}
			}
		}
	}
	enc.Encode(map[string]any{"kind": "replay", "run": res})
	bw.Flush()
	if res.Violation != nil {
		return 1
	}
	return 0
}

// doShrink minimises a functional (non-race) violation in-process.
func doShrink(run runFn, path string, o hx.Opts, enc *json.Encoder, bw *bufio.Writer) int {
	raw, err := os.ReadFile(path)
	if err != nil {
		fmt.Fprintln(os.Stderr, "worker:", err)
		return 2
	}
	var rf ReplayFile
	if err := json.Unmarshal(raw, &rf); err != nil {
		fmt.Fprintln(os.Stderr, "worker: replay file:", err)
		return 2
	}
	if rf.Forced != "" {
		o.Scenario = rf.Forced
	}
	for k, v := range rf.Params {
		o.Param[k] = v
	}
	o.Verbose = false
	try := func(ch []uint32) ([]uint32, []uint8, bool) {
		oo := o
		oo.Replay = ch
		if oo.Replay == nil {
			oo.Replay = []uint32{}
		}
		res := run(rf.Seed, rf.Index, oo)
		if res.Violation != nil && res.Violation.Class == rf.Class && res.Violation.Key == rf.Key {
			return res.Choices, res.Kinds, true
		}
		return nil, nil, false
	}
	// switch whole fault kinds off first: stalled tasks, drops, duplicates, delays, coalescing, segmentation, preemption
	order := []uint8{uint8(rt.KTimeSkip), uint8(rt.KDrop), uint8(rt.KDup), uint8(rt.KDelay), uint8(rt.KCoalesce), uint8(rt.KSeg), uint8(rt.KGap), uint8(rt.KSched), uint8(rt.KSelect)}
	best, tried := hx.MinimiseKinds(rf.Choices, try, order, time.Now().Add(40*time.Second), 20000)
	enc.Encode(map[string]any{"kind": "shrunk", "choices": best, "tried": tried})
	bw.Flush()
	return 0
}
