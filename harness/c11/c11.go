package c11

import "verif.local/harness/hx"

var ProbeNames = map[int]string{}

func Run(seed uint64, index int64, o hx.Opts) *hx.Result {
	return &hx.Result{Property: "c11", Index: index, Seed: seed, Discarded: "not implemented"}
}
