// Package c11 simulates the NetBIOS session transport (nbt.NBTTransport,
// obtained through smb_v10/transport.NewTransport) over a simulated TCP byte
// stream with segmentation, coalescing, delay, bounded windows and a
// connection cut (FIN, RST, local close) at a chosen byte offset.
package c11

import (
	"bytes"
	"fmt"
	"net"

	"github.com/TheManticoreProject/Manticore/network/smb/smb_v10/transport"

	"verif.local/harness/hx"
	simnet "verif.local/sim/net"
	"verif.local/sim/rt"
)

const (
	PCutInHeader = rt.PUser + iota
	PCutInBody
	PCutAtBoundary
	PHeaderSplit
	PLargeFrame
	POversize
	PLocalCloseWhileBlocked
	PEmptyPayload
	PKeepAlive
	PHeaderPause
	PReservedFlags
	PFirstSessionCut
	PSlicedPayloads
	PReceiverStall
	PSenderReconnected
	PPrelude
	PHeaderLikePayload
	PDuplexPause
)

var ProbeNames = map[int]string{
	PCutInHeader:            "cut_inside_header",
	PCutInBody:              "cut_inside_body",
	PCutAtBoundary:          "cut_at_frame_boundary",
	PHeaderSplit:            "header_arrived_in_several_reads",
	PLargeFrame:             "frame_of_64KiB_or_more",
	POversize:               "payload_too_large_to_frame",
	PLocalCloseWhileBlocked: "local_close_while_receive_blocked",
	PEmptyPayload:           "empty_payload",
	PKeepAlive:              "keep_alive_packets_in_the_stream",
	PHeaderPause:            "peer_paused_6s_or_40s_inside_a_frame_header",
	PReservedFlags:          "peer_sets_reserved_flag_bits",
	PFirstSessionCut:        "first_of_two_sessions_cut_inside_a_frame",
	PSlicedPayloads:         "payloads_are_adjacent_subslices_of_one_buffer",
	PReceiverStall:          "receiver_not_reading_for_seconds_while_several_senders_send",
	PSenderReconnected:      "sender_opened_a_further_connection_on_its_own",
	PPrelude:                "other_transports_connected_and_closed_twice_before_the_run",
	PHeaderLikePayload:      "payloads_that_begin_like_a_session_header",
	PDuplexPause:            "duplex_one_direction_silent_for_12s_or_45s",
}

const maxLen = 0x1FFFF

// Independent RFC 1002 §4.3.1 session-message framer: type 0x00, flags bit 0 = length bit 16, 16-bit big-endian length.
func frame(p []byte) []byte {
	n := len(p)
	out := make([]byte, 4, 4+n)
	out[0] = 0x00
	out[1] = byte((n >> 16) & 1)
	out[2] = byte(n >> 8)
	out[3] = byte(n)
	return append(out, p...)
}

func payload(f, n int) []byte {
	p := make([]byte, n)
	x := uint32(f)*2654435761 + 12345
	for i := range p {
		x = x*1664525 + 1013904223
		p[i] = byte(x>>24) ^ byte(i) ^ byte(i>>8)
	}
	return p
}

var boundaryLens = [...]int{0, 1, 2, 3, 4, 5, 0xFF, 0x100, 0xFFFF, 0x10000, 0x10001, 0x1FFFE, 0x1FFFF, 0x20000, 0x20001, 0x2FFFF}

const (
	WirePair    = 0 // SUT sender -> SUT receiver (crossover)
	WireSUTSend = 1 // SUT sender -> scripted peer
	WireSUTRecv = 2 // scripted peer -> SUT receiver
	WireDuplex  = 3 // two SUT transports, both sending and receiving at once (4 tasks, 2 per transport)
	WireMulti   = 4 // several tasks Send on ONE transport at the same time; the peer transport receives everything
)

const (
	cutNone  = 0
	cutFIN   = 1
	cutRST   = 2
	cutLocal = 3
)

var cutNames = [...]string{"none", "FIN", "RST", "local-close"}
var wireNames = [...]string{"pair", "sut-sends", "sut-receives", "duplex", "multi-sender"}

type plan struct {
	v6        bool // the peer / crossover address is an IPv6 address
	wiring    int
	lens      []int
	lens2     []int // duplex: frames of the reverse direction; two sessions: frames of the second session
	keepAt    []int // sut-receives: RFC 1002 session keep-alive packets (85 00 00 00) inserted before these frame indexes
	resvMask  byte  // sut-receives: reserved bits (0x02..0x80) the peer sets in the flags byte of frame resvAt (0 = none)
	resvAt    int
	twoSess   bool // sut-receives: the transport is closed after recv1 frames and connected again (second session)
	recv1     int
	cut1      int // two sessions: the peer ends the first session (FIN) after this many bytes of its stream (-1 = sends all)
	cutKind   int
	cutAt     int // byte offset in the wire stream
	segMode   int // -1 from the choice stream, 0 whole, 1 byte by byte
	window    int
	quiet     bool
	hdrLike   bool  // payloads begin with four bytes that read as a session header announcing the rest of the payload
	dupPause  int64 // duplex: the second transport's sender waits this long before its first frame (12 s / 45 s)
	prelude   bool  // before the run proper, two other transports are connected and closed, one of them twice
	sliced    bool  // the sender's payloads are adjacent sub-slices of one buffer (spare capacity behind each of them)
	recvStall int64 // several senders: the receiver does not read for this long at first (the window fills up)
}

type recvRes struct {
	data []byte
	err  error
}

type sendRes struct {
	n   int
	err error
}

func lenBucket(n int) string {
	switch {
	case n == 0:
		return "0"
	case n < 0x10000:
		return "<64K"
	case n <= maxLen:
		return "64K..128K-1"
	default:
		return ">=128K"
	}
}

func genLen(allowLarge bool) int {
	a, b, c := hx.G(7), hx.G(len(boundaryLens)), hx.G(1<<16)
	switch a {
	case 5: // every size up to 8 KiB is hit a few dozen times per quick run (unknown thresholds of fast paths)
		return c % 8192
	case 6: // sizes around buffer sizes SMB implementations like (4356 = SMB1 MaxBufferSize, 16644, 61440, 65535)
		base := [...]int{4356, 4356, 16644, 61440, 8192, 1024}[c%6]
		l := base + (c>>4)%9 - 4
		if l >= 0xFFFF && !allowLarge {
			return c % 40
		}
		return l
	case 4: // around a power of two (thresholds of fast paths, buffer sizes) or a typical MSS
		k := 5 + c%13 // 2^5 .. 2^17
		l := 1<<uint(k) + (c>>4)%3 - 1
		if (c>>8)%7 == 0 {
			l = 1460 + (c>>4)%3 - 1
		}
		if l >= 0xFFFF && !allowLarge {
			return c % 40
		}
		return l
	case 0:
		l := boundaryLens[b]
		if l >= 0xFFFF && !allowLarge {
			return c % 40
		}
		return l
	case 1:
		return c % 40
	case 2:
		return c % 2000
	default:
		if allowLarge {
			return (c * 4) % 200000
		}
		return c % 300
	}
}

func genPlan(o hx.Opts) *plan {
	p := &plan{segMode: -1}
	p.wiring = hx.G(5)
	const maxFrames = 6
	var lens, lens2 [maxFrames]int
	large := 0
	for i := range lens {
		lens[i] = genLen(large < 2)
		if lens[i] >= 0xFFFF {
			large++
		}
	}
	for i := range lens2 {
		lens2[i] = genLen(false)
	}
	// size histories: in a third of the runs every frame after the first is a few bytes longer (or shorter) than the
	// longest one sent before it on the same connection (buffers that grow with the traffic)
	if hist, hd := hx.G(3), hx.G(1<<12); hist == 0 {
		maxSoFar := lens[0]
		for i := 1; i < len(lens); i++ {
			if (hd>>uint(i))&1 == 1 && maxSoFar < 60000 {
				lens[i] = maxSoFar + 1 + (hd>>uint(2*i))%4
				if (hd>>uint(i+6))&1 == 1 && maxSoFar > 8 {
					lens[i] = maxSoFar - 1 - (hd>>uint(2*i))%4
				}
			}
			if lens[i] > maxSoFar && lens[i] <= maxLen {
				maxSoFar = lens[i]
			}
		}
	}
	n := 1 + hx.G(maxFrames)
	n2 := 1 + hx.G(maxFrames)
	p.lens = append(p.lens, lens[:n]...)
	if p.wiring == WireDuplex || p.wiring == WireMulti {
		p.lens2 = append(p.lens2, lens2[:n2]...)
	}
	if p.wiring == WireMulti {
		// the second sender sometimes sends large frames too (a non-atomic large write is where senders interleave)
		for i := range p.lens2 {
			if lens[maxFrames-1-i%maxFrames]%3 == 0 {
				p.lens2[i] = 16385 + lens[maxFrames-1-i%maxFrames]%70000
			}
		}
	}
	p.hdrLike = hx.G(5) == 0
	p.dupPause = [...]int64{0, 0, 0, 12e9, 45e9}[hx.G(5)]
	p.prelude = hx.G(4) == 0
	p.sliced = hx.G(4) == 0
	p.recvStall = [...]int64{0, 0, 3e9, 10e9}[hx.G(4)]
	p.v6 = hx.G(5) == 0
	ts, r1 := hx.G(4), hx.G(maxFrames+1)
	p.cut1 = -1
	c1, c1pos, c1fine := hx.G(2), hx.G(1<<16), hx.G(8)
	if p.wiring == WireSUTRecv && ts == 0 {
		p.twoSess = true
		p.lens2 = append(p.lens2, lens2[:n2]...)
		p.recv1 = r1
		if c1 == 0 {
			// the first session dies inside a frame (mostly inside a header): whatever the receiver had assembled
			// of that frame must be gone when the same transport object is connected again
			total, pos := 0, 0
			for _, l := range p.lens {
				if l <= maxLen {
					total += 4 + l
				}
			}
			j := c1pos % (len(p.lens) + 1)
			for i, l := range p.lens {
				if i == j {
					break
				}
				if l <= maxLen {
					pos += 4 + l
				}
			}
			if c1fine < 6 {
				p.cut1 = pos + c1fine // 0..5 bytes into frame j
			} else {
				p.cut1 = c1pos % (total + 1)
			}
			if p.cut1 > total {
				p.cut1 = total
			}
		}
	}
	p.window = [...]int{1 << 20, 1 << 20, 4096, 64, 7}[hx.G(5)]
	ck, cpos, cfine := hx.F(5), hx.F(1<<16), hx.F(12)
	switch ck {
	case 1:
		p.cutKind = cutFIN
	case 2:
		p.cutKind = cutRST
	case 3:
		p.cutKind = cutLocal
	}
	if p.cutKind != cutNone {
		total := 0
		var bounds []int
		for _, l := range p.lens {
			if l > maxLen {
				continue
			}
			bounds = append(bounds, total)
			total += 4 + l
		}
		if total == 0 {
			p.cutKind = cutNone
		} else {
			// bias the offset towards header bytes and frame boundaries
			if cfine < 8 && len(bounds) > 0 {
				b := bounds[cpos%len(bounds)]
				p.cutAt = b + cfine - 2
				if p.cutAt < 0 {
					p.cutAt = 0
				}
				if p.cutAt > total {
					p.cutAt = total
				}
			} else {
				p.cutAt = cpos % (total + 1)
			}
		}
		if p.cutKind == cutLocal && p.wiring == WireSUTSend {
			p.cutKind = cutFIN
		}
	}
	if p.wiring == WireDuplex || p.wiring == WireMulti || p.twoSess {
		p.cutKind = cutNone
	}
	ka, k1, k2 := hx.G(6), hx.G(maxFrames+1), hx.G(maxFrames+1)
	if p.wiring == WireSUTRecv && !p.twoSess && ka == 0 {
		p.cutKind = cutFIN // the peer closes after everything: the receiver's loop always ends
		p.keepAt = []int{k1 % (len(p.lens) + 1)}
		if k2%2 == 0 {
			p.keepAt = append(p.keepAt, k2%(len(p.lens)+1))
		}
	} else if p.wiring == WireSUTRecv && !p.twoSess && ka == 1 {
		// RFC 1002 4.3.1: the flags byte has one defined bit (the length extension); a peer that sets others is
		// out of spec. The receiver may ignore them (the pinned tree does) or report an error, but it must not
		// take them for length bits or anything else that turns the stream into other messages.
		p.cutKind = cutFIN
		p.resvMask = byte(2) << uint(k1%7)
		if k2%3 == 0 {
			p.resvMask |= byte(2) << uint(k2%7)
		}
		p.resvAt = k2 % len(p.lens)
		if k1%2 == 0 {
			// the lowest reserved bit, in the first frame, with enough stream behind it for a receiver that takes
			// the bit for a length bit (+128 KiB) to be able to complete its read
			p.resvMask, p.resvAt = 0x02, 0
			if len(p.lens) <= 4 {
				p.lens = append(p.lens, 70000+k2, 70000-k2)
			}
		}
	}
	return p
}

// small frame sequences for the exhaustive cut enumeration (total wire size <= 96)
func enumSequences() [][]int {
	var out [][]int
	lens := []int{0, 1, 2, 3, 5, 9, 17, 30}
	for _, a := range lens {
		out = append(out, []int{a})
	}
	for _, a := range []int{0, 1, 3, 9} {
		for _, b := range []int{0, 2, 5, 17} {
			out = append(out, []int{a, b})
		}
	}
	out = append(out, []int{0, 0, 0}, []int{1, 0, 1}, []int{4, 4, 4}, []int{2, 9, 1}, []int{17, 0, 3}, []int{30, 1, 2}, []int{1, 2, 3, 4}, []int{0, 5, 0, 5}, []int{9, 9, 9, 9}, []int{3, 1, 4, 1, 5}, []int{8, 8, 8, 8, 8, 8})
	out = append(out, []int{40, 40}, []int{88}, []int{60, 20}, []int{10, 20, 30}, []int{7, 7, 7, 7, 7, 7})
	return out
}

// large frame sequences (length-extension bit, 64 KiB boundaries): the cut is enumerated over the offsets around
// every frame header, just inside both ends of every body, the middle of every body, the three offsets around every
// power-of-two boundary (4 KiB .. 64 KiB) inside every body, and the end of the stream
func enumLargeSequences() [][]int {
	return [][]int{{0xFFFF}, {0x10000}, {0x1FFFF}, {1, 0x10000, 1}, {70000, 70000}, {0x10001, 0, 0xFFFF}}
}

func largeCutOffsets(seq []int) []int {
	var offs []int
	add := func(o int) {
		for _, x := range offs {
			if x == o {
				return
			}
		}
		offs = append(offs, o)
	}
	pos := 0
	for _, l := range seq {
		for d := 0; d <= 5; d++ {
			add(pos + d)
		}
		if l > 2 {
			add(pos + 4 + l/2)
			add(pos + 4 + l - 1)
		}
		// around every power-of-two boundary inside the body (chunked reads and writes change behaviour there)
		for k := 4096; k <= 65536 && k < l; k *= 2 {
			add(pos + 4 + k - 1)
			add(pos + 4 + k)
			add(pos + 4 + k + 1)
		}
		pos += 4 + l
	}
	add(pos)
	return offs
}

// EnumSize is the number of runs in the exhaustive cut enumeration.
func EnumSize() int64 {
	var n int64
	for _, s := range enumSequences() {
		total := 0
		for _, l := range s {
			total += 4 + l
		}
		n += int64(total+1) * 3 * 3 * 2
	}
	for _, s := range enumLargeSequences() {
		n += int64(len(largeCutOffsets(s))) * 3 * 2 * 2
	}
	return n
}

// enumPlan decodes run index -> (sequence, wiring, cut kind, segmentation, cut offset).
func enumPlan(index int64) *plan {
	for _, s := range enumSequences() {
		total := 0
		for _, l := range s {
			total += 4 + l
		}
		size := int64(total+1) * 3 * 3 * 2
		if index >= size {
			index -= size
			continue
		}
		p := &plan{lens: s, window: 1 << 20}
		p.cutAt = int(index % int64(total+1))
		index /= int64(total + 1)
		p.cutKind = 1 + int(index%3)
		index /= 3
		p.segMode = int(index%3) - 1 // -1 random, 0 whole, 1 byte by byte
		index /= 3
		if index == 0 {
			p.wiring = WireSUTRecv
		} else {
			p.wiring = WirePair
		}
		return p
	}
	for _, s := range enumLargeSequences() {
		offs := largeCutOffsets(s)
		size := int64(len(offs)) * 3 * 2 * 2
		if index >= size {
			index -= size
			continue
		}
		p := &plan{lens: s, window: 1 << 20}
		p.cutAt = offs[index%int64(len(offs))]
		index /= int64(len(offs))
		p.cutKind = 1 + int(index%3)
		index /= 3
		p.segMode = int(index%2) - 1 // -1 seeded, 0 whole
		index /= 2
		if index == 0 {
			p.wiring = WireSUTRecv
		} else {
			p.wiring = WirePair
		}
		return p
	}
	return nil
}

// LenEnumSize: every payload length the 17-bit field can express, and the first few it cannot.
func LenEnumSize() int64 { return maxLen + 1 + 16 }

// lenPlan: one frame of exactly index bytes through a pair of real transports (Send on one, Receive on the other);
// the segmentation of the stream comes from the run's choice stream. Lengths above 0x1FFFF must be refused by Send.
func lenPlan(index int64) *plan {
	return &plan{lens: []int{int(index)}, wiring: WirePair, segMode: -1, window: 1 << 20, v6: index%7 == 3}
}

// Run executes one simulated run.
func Run(seed uint64, index int64, o hx.Opts) *hx.Result {
	res := &hx.Result{Property: "C11", Index: index, Seed: seed, Extra: map[string]int64{}}
	en := hx.AllKinds()
	en[rt.KDrop], en[rt.KDup], en[rt.KTimeSkip] = false, false, false
	cfg := rt.Config{Seed: seed, Replay: o.Replay, Verbose: o.Verbose, NPoints: o.NPoints, Bias: hx.Swarm(seed, en), MaxSteps: 3_000_000}
	cfg.PCT = hx.SwarmPCT(seed)
	w := rt.NewWorld(cfg)
	w.NoSkip = true
	simnet.RegisterCrossover("10.0.0.99:139")
	simnet.RegisterCrossover("fd00::99:139")

	var pl *plan
	var recvs []recvRes
	var sends []sendRes
	var wire []byte // bytes the scripted peer received
	var frames, frames2 [][]byte
	var recvs2 []recvRes
	var sends2 []sendRes
	var bad *hx.Violation

	// sliced payloads: what the sender passes to Send are adjacent sub-slices of one buffer, each with spare capacity
	// behind it (the next payload); Send must leave every byte of the caller's memory as it found it
	var extraWires [][]byte // sut-sends: bytes received on connections the sender opened on its own after the first
	var arenas, pristines [][]byte
	sendable := func(fs [][]byte) [][]byte {
		if pl == nil || !pl.sliced {
			return fs
		}
		total := 8
		for _, p := range fs {
			total += len(p)
		}
		arena := make([]byte, 0, total)
		out := make([][]byte, len(fs))
		for i, p := range fs {
			off := len(arena)
			arena = append(arena, p...)
			out[i] = arena[off : off+len(p)]
		}
		arena = append(arena, 0xEE, 0xEE, 0xEE, 0xEE, 0xEE, 0xEE, 0xEE, 0xEE)
		arenas = append(arenas, arena)
		pristines = append(pristines, append([]byte(nil), arena...))
		rt.Probe(PSlicedPayloads)
		return out
	}
	v := w.Run(func() {
		if o.Scenario == "lenenum" {
			pl = lenPlan(index)
			res.Scenario = "lenenum"
		} else if o.Scenario == "cutenum" {
			pl = enumPlan(index)
			if pl == nil {
				return
			}
			res.Scenario = "cutenum"
		} else {
			pl = genPlan(o)
			res.Scenario = "random/" + wireNames[pl.wiring]
		}
		{
			// step budget in proportion to the bytes to be moved: a receiver that spends a few dozen statements per
			// byte delivered one at a time is slow, not stuck; a run far beyond that is
			work := int64(0)
			for _, l := range pl.lens {
				work += int64(l)
			}
			for _, l := range pl.lens2 {
				work += int64(l)
			}
			w.SetMaxSteps(3_000_000 + 100*work)
		}
		for f, l := range pl.lens {
			frames = append(frames, payload(f, l))
			switch {
			case l > maxLen:
				rt.Probe(POversize)
			case l >= 0x10000:
				rt.Probe(PLargeFrame)
			case l == 0:
				rt.Probe(PEmptyPayload)
			}
		}
		if pl.hdrLike {
			// payloads are opaque: one that happens to begin like a session header is a payload like any other
			for _, p := range frames {
				if n := len(p) - 4; n >= 0 {
					p[0], p[1], p[2], p[3] = 0, byte(n>>16)&1, byte(n>>8), byte(n)
				}
			}
			rt.Probe(PHeaderLikePayload)
		}
		// wire image of the legal frames and frame boundaries
		var legal [][]byte
		var stream []byte
		for _, p := range frames {
			if len(p) <= maxLen {
				legal = append(legal, p)
				stream = append(stream, frame(p)...)
			}
		}
		if len(pl.keepAt) > 0 {
			// the peer's byte stream carries keep-alive packets between session messages; a receiver may reject
			// them (the pinned tree does) or skip them -- either way it must never turn them into messages
			var ws []byte
			fi := 0
			for _, p := range frames {
				if len(p) > maxLen {
					continue
				}
				for _, k := range pl.keepAt {
					if k == fi {
						ws = append(ws, 0x85, 0, 0, 0)
					}
				}
				ws = append(ws, frame(p)...)
				fi++
			}
			for _, k := range pl.keepAt {
				if k >= fi {
					ws = append(ws, 0x85, 0, 0, 0)
				}
			}
			stream = ws
			pl.cutAt = len(stream)
			rt.Probe(PKeepAlive)
		}
		if pl.resvMask != 0 {
			pos, fi := 0, 0
			for _, p := range frames {
				if len(p) > maxLen {
					continue
				}
				if fi == pl.resvAt%max(len(legal), 1) {
					stream[pos+1] |= pl.resvMask
				}
				pos += 4 + len(p)
				fi++
			}
			pl.cutAt = len(stream)
			rt.Probe(PReservedFlags)
		}
		if pl.cutKind != cutNone {
			off, pos := pl.cutAt, 0
			where := PCutAtBoundary
			for _, p := range legal {
				if off > pos && off < pos+4 {
					where = PCutInHeader
				} else if off >= pos+4 && off < pos+4+len(p) && len(p) > 0 && off != pos+4+len(p) {
					if off > pos+4 || len(p) > 0 {
						where = PCutInBody
					}
					if off == pos+4 && len(p) > 0 {
						where = PCutInBody
					}
				}
				pos += 4 + len(p)
			}
			rt.Probe(where)
		}
		simnet.SetDefaultWindow(pl.window)
		peerIP, peerAddr, xIP := net.IP{10, 0, 0, 2}, "10.0.0.2:139", net.IP{10, 0, 0, 99}
		peerHost := "10.0.0.2"
		if pl.v6 {
			peerIP, peerAddr, xIP = net.ParseIP("fd00::2"), "[fd00::2]:139", net.ParseIP("fd00::99")
			peerHost = "fd00::2"
		}

		if pl.twoSess {
			// one transport object, two consecutive sessions: what the first connection left unread must not
			// leak into the second
			for f, l := range pl.lens2 {
				frames2 = append(frames2, payload(200+f, l))
			}
			var stream2 []byte
			var legal2 [][]byte
			for _, p := range frames2 {
				if len(p) <= maxLen {
					legal2 = append(legal2, p)
					stream2 = append(stream2, frame(p)...)
				}
			}
			ln, err := simnet.Listen("tcp", peerAddr)
			if err != nil {
				panic(err)
			}
			tr := transport.NewTransport("nbt")
			peer := rt.GoHarness("peer", peerHost, func() {
				for si, data := range [][]byte{stream, stream2} {
					c, err := ln.Accept()
					if err != nil {
						return
					}
					if si == 0 && pl.cut1 >= 0 {
						c.Write(data[:pl.cut1])
						c.Close()
						continue
					}
					c.Write(data) // the first session may be closed by the receiver half way: errors are expected
					defer c.Close()
				}
			})
			n1 := pl.recv1
			if n1 > len(legal) {
				n1 = len(legal)
			}
			sut := rt.GoHarness("receiver", "10.0.0.1", func() {
				if err := tr.Connect(peerIP, 139); err != nil {
					bad = &hx.Violation{Class: "connect", Key: "connect", Msg: err.Error()}
					return
				}
				if pl.cut1 >= 0 {
					recvs = receiveAll(tr, len(legal), true)
				} else if n1 > 0 {
					recvs = receiveAll(tr, n1, false)
				}
				tr.Close()
				if err := tr.Connect(peerIP, 139); err != nil {
					bad = &hx.Violation{Class: "connect", Key: "reconnect", Msg: err.Error()}
					return
				}
				recvs2 = receiveAll(tr, len(legal2), false)
			})
			rt.Join(sut, -1)
			tr.Close()
			rt.Join(peer, -1)
			ln.Close()
			if pl.cut1 >= 0 {
				rt.Probe(PFirstSessionCut)
				return // judged against all frames with the cut
			}
			frames = frames[:0]
			for i := 0; i < n1; i++ {
				frames = append(frames, legal[i])
			}
			return
		}
		if pl.prelude && (pl.wiring == WirePair || pl.wiring == WireDuplex || pl.wiring == WireMulti) {
			// other transports lived and died in this process before: whatever they handed back to package-level
			// state (pools, registries) when they were closed -- one of them twice -- must not couple the
			// transports of this run
			t0, t1 := transport.NewTransport("nbt"), transport.NewTransport("nbt")
			if t0.Connect(xIP, 139) == nil && t1.Connect(xIP, 139) == nil {
				t1.Close()
				t0.Close()
				t0.Close() // a second Close is a harmless no-op, not a second hand-back of anything
				rt.Probe(PPrelude)
			}
		}
		switch pl.wiring {
		case WireSUTRecv:
			ln, err := simnet.Listen("tcp", peerAddr)
			if err != nil {
				panic(err)
			}
			var pc simnet.Conn
			tr := transport.NewTransport("nbt")
			connected := &rt.Flag{} // set once the receiver's Connect has returned
			peer := rt.GoHarness("peer", peerHost, func() {
				c, err := ln.Accept()
				if err != nil {
					return
				}
				pc = c
				if pl.segMode >= 0 {
					simnet.ForceSegmentation(c, pl.segMode)
				}
				data := stream
				if pl.cutKind != cutNone {
					data = stream[:pl.cutAt]
				}
				// sometimes the peer stops in the middle of a frame header for longer than any idle timer a
				// receiver might run (6 s or 40 s), then carries on
				pauseAt, pause := -1, int64(0)
				if pl.segMode < 0 && len(pl.keepAt) == 0 && pl.resvMask == 0 {
					if pz := hx.F(6); pz <= 3 && len(data) > 4 {
						off, pos := 0, hx.F(len(legal)+1)
						for i, p := range legal {
							if i == pos {
								break
							}
							off += 4 + len(p)
						}
						pauseAt = off + 1 + hx.F(3)
						pause = [...]int64{6e9, 40e9, 3e9, 40e9}[pz]
						if pb := hx.F(1 << 17); pz >= 2 && pos < len(legal) && len(legal[pos]) > 1 {
							pauseAt = off + 4 + 1 + pb%(len(legal[pos])-1) // somewhere inside the body
						}
						if pauseAt >= len(data) {
							pauseAt = -1
						} else {
							rt.Probe(PHeaderPause)
						}
					}
				}
				sent := 0
				// the peer writes in its own chunks; the network segments them further
				for len(data) > 0 {
					k := len(data)
					if pauseAt >= 0 && sent < pauseAt && sent+k > pauseAt {
						k = pauseAt - sent
					}
					if pauseAt >= 0 && sent == pauseAt {
						for {
							_, inflight, _, _ := simnet.Unread(simnet.Peer(c))
							if inflight == 0 {
								break
							}
							rt.SleepUntil(rt.Now() + 1e6)
						}
						rt.SleepUntil(rt.Now() + pause)
						pauseAt = -1
						continue
					}
					if pl.segMode < 0 {
						switch hx.F(4) {
						case 1:
							if k > 1 {
								k = 1 + hx.F(k)
							}
						case 2:
							if k > 4 {
								k = 4
							}
						}
					}
					if _, err := c.Write(data[:k]); err != nil {
						return
					}
					data = data[k:]
					sent += k
				}
				switch pl.cutKind {
				case cutFIN:
					c.Close()
				case cutRST:
					simnet.Abort(c)
				case cutLocal:
					// wait until the receiver is connected and everything sent was delivered, then close the
					// *receiver's* transport from this other task
					connected.Wait(-1)
					for {
						_, inflight, _, _ := simnet.Unread(simnet.Peer(c))
						if inflight == 0 {
							break
						}
						rt.SleepUntil(rt.Now() + 1e6)
					}
					for i := 0; i < 3; i++ {
						rt.Yield()
					}
					rt.Probe(PLocalCloseWhileBlocked)
					tr.Close()
				}
			})
			sut := rt.GoHarness("receiver", "10.0.0.1", func() {
				if err := tr.Connect(peerIP, 139); err != nil {
					connected.Set()
					bad = &hx.Violation{Class: "connect", Key: "connect", Msg: err.Error()}
					return
				}
				connected.Set()
				if len(pl.keepAt) > 0 || pl.resvMask != 0 {
					recvs = receiveLenient(tr, len(legal)+len(pl.keepAt)+4)
				} else {
					recvs = receiveAll(tr, len(legal), pl.cutKind != cutNone)
				}
			})
			rt.Join(sut, -1)
			tr.Close() // a peer still blocked on a full window is released with an error
			rt.Join(peer, -1)
			if pc != nil {
				pc.Close()
			}
			ln.Close()

		case WireSUTSend:
			ln, err := simnet.Listen("tcp", peerAddr)
			if err != nil {
				panic(err)
			}
			tr := transport.NewTransport("nbt")
			peerReady := &rt.Flag{}
			peer := rt.GoHarness("peer", peerHost, func() {
				c, err := ln.Accept()
				if err != nil {
					peerReady.Set()
					return
				}
				if pl.cutKind != cutNone {
					simnet.CutPeerAfter(c, pl.cutAt, pl.cutKind)
				}
				peerReady.Set()
				buf := make([]byte, 70000)
				for {
					n, err := c.Read(buf[:1+hx.F(len(buf))])
					wire = append(wire, buf[:n]...)
					if err != nil {
						c.Close()
						break
					}
				}
				// a sender that connects again on its own (after the peer reset the connection, say) is listened
				// to as well: whatever it sends on a new connection has to start at a frame boundary
				for {
					c2, err := ln.Accept()
					if err != nil {
						return
					}
					rt.Probe(PSenderReconnected)
					var w2 []byte
					for {
						n, err := c2.Read(buf)
						w2 = append(w2, buf[:n]...)
						if err != nil {
							c2.Close()
							break
						}
					}
					extraWires = append(extraWires, w2)
				}
			})
			sut := rt.GoHarness("sender", "10.0.0.1", func() {
				if err := tr.Connect(peerIP, 139); err != nil {
					bad = &hx.Violation{Class: "connect", Key: "connect", Msg: err.Error()}
					return
				}
				peerReady.Wait(-1)
				for _, p := range sendable(frames) {
					n, err := tr.Send(p)
					sends = append(sends, sendRes{n, err})
				}
				tr.Close()
			})
			rt.Join(sut, -1)
			ln.Close()
			rt.Join(peer, -1)

		case WireMulti:
			for f, l := range pl.lens2 {
				frames2 = append(frames2, payload(300+f, l))
			}
			a := transport.NewTransport("nbt")
			b := transport.NewTransport("nbt")
			if err := a.Connect(xIP, 139); err != nil {
				bad = &hx.Violation{Class: "connect", Key: "connect", Msg: err.Error()}
				return
			}
			if err := b.Connect(xIP, 139); err != nil {
				bad = &hx.Violation{Class: "connect", Key: "connect", Msg: err.Error()}
				return
			}
			total := 0
			for _, fs := range [][][]byte{frames, frames2} {
				for _, p := range fs {
					if len(p) <= maxLen {
						total++
					}
				}
			}
			s1 := rt.GoHarness("sender-1", "", func() {
				for _, p := range sendable(frames) {
					n, err := a.Send(p)
					sends = append(sends, sendRes{n, err})
				}
			})
			s2 := rt.GoHarness("sender-2", "", func() {
				for _, p := range sendable(frames2) {
					n, err := a.Send(p)
					sends2 = append(sends2, sendRes{n, err})
				}
			})
			rc := rt.GoHarness("receiver", "", func() {
				if pl.recvStall > 0 {
					rt.Probe(PReceiverStall)
					rt.SleepUntil(rt.Now() + pl.recvStall) // the senders run into a full window and stay there for seconds
				}
				recvs = receiveAll(b, total, false)
			})
			rt.Join(rc, -1)
			b.Close()
			simnet.SealCrossover()
			simnet.CloseUnpaired()
			rt.Join(s1, -1)
			rt.Join(s2, -1)
			a.Close()

		case WireDuplex:
			for f, l := range pl.lens2 {
				frames2 = append(frames2, payload(100+f, l))
			}
			var legal2 [][]byte
			for _, p := range frames2 {
				if len(p) <= maxLen {
					legal2 = append(legal2, p)
				}
			}
			a := transport.NewTransport("nbt")
			b := transport.NewTransport("nbt")
			if err := a.Connect(xIP, 139); err != nil {
				bad = &hx.Violation{Class: "connect", Key: "connect", Msg: err.Error()}
				return
			}
			if err := b.Connect(xIP, 139); err != nil {
				bad = &hx.Violation{Class: "connect", Key: "connect", Msg: err.Error()}
				return
			}
			ts := []*rt.Task{
				rt.GoHarness("a-sender", "", func() {
					for _, p := range sendable(frames) {
						n, err := a.Send(p)
						sends = append(sends, sendRes{n, err})
					}
				}),
				rt.GoHarness("b-receiver", "", func() { recvs = receiveAll(b, len(legal), false) }),
				rt.GoHarness("b-sender", "", func() {
					if pl.dupPause > 0 {
						// a's sender is long done while a's receiver keeps waiting for this side's first frame
						rt.Probe(PDuplexPause)
						rt.SleepUntil(rt.Now() + pl.dupPause)
					}
					for _, p := range sendable(frames2) {
						n, err := b.Send(p)
						sends2 = append(sends2, sendRes{n, err})
					}
				}),
				rt.GoHarness("a-receiver", "", func() { recvs2 = receiveAll(a, len(legal2), false) }),
			}
			// receivers first: a sender blocked on a full window is released once the other side is closed
			rt.Join(ts[1], -1)
			rt.Join(ts[3], -1)
			a.Close()
			b.Close()
			simnet.SealCrossover()
			simnet.CloseUnpaired()
			rt.Join(ts[0], -1)
			rt.Join(ts[2], -1)

		case WirePair:
			s := transport.NewTransport("nbt")
			r := transport.NewTransport("nbt")
			if err := s.Connect(xIP, 139); err != nil {
				bad = &hx.Violation{Class: "connect", Key: "connect", Msg: err.Error()}
				return
			}
			if err := r.Connect(xIP, 139); err != nil {
				bad = &hx.Violation{Class: "connect", Key: "connect", Msg: err.Error()}
				return
			}
			sconn, _ := simnet.LastCrossover()
			if pl.segMode >= 0 {
				simnet.ForceSegmentation(sconn, pl.segMode)
			}
			if pl.cutKind == cutFIN || pl.cutKind == cutRST {
				simnet.CutAfter(sconn, pl.cutAt, pl.cutKind)
			}
			sender := rt.GoHarness("sender", "", func() {
				for _, p := range sendable(frames) {
					n, err := s.Send(p)
					sends = append(sends, sendRes{n, err})
				}
			})
			recvr := rt.GoHarness("receiver", "", func() {
				recvs = receiveAll(r, len(legal), pl.cutKind != cutNone)
			})
			if pl.cutKind == cutLocal {
				rt.GoHarness("closer", "", func() {
					for i := hx.F(40); i > 0; i-- {
						rt.SleepUntil(rt.Now() + 1e6)
					}
					if recvr.Blocked() {
						rt.Probe(PLocalCloseWhileBlocked)
					}
					r.Close()
				})
			}
			rt.Join(recvr, -1)
			r.Close() // a sender still blocked on a full window is released with an error
			simnet.SealCrossover()
			simnet.CloseUnpaired()
			rt.Join(sender, -1)
			s.Close()
		}
	})
	res.SimNs = w.SimNow()
	if pl == nil {
		res.Discarded = "index beyond the enumeration"
		hx.Finish(res, w, v, false)
		return res
	}
	res.NonTrivial = true
	desc := fmt.Sprintf("wiring=%s frames=%v cut=%s", wireNames[pl.wiring], pl.lens, cutNames[pl.cutKind])
	if pl.wiring == WireDuplex {
		desc += fmt.Sprintf(" reverse-frames=%v", pl.lens2)
	}
	if pl.wiring == WireMulti {
		desc += fmt.Sprintf(" second-sender-frames=%v", pl.lens2)
	}
	if pl.sliced {
		desc += " payloads=adjacent-subslices-of-one-buffer"
	}
	if pl.hdrLike {
		desc += " payloads-begin-like-a-session-header"
	}
	if pl.dupPause > 0 && pl.wiring == WireDuplex {
		desc += fmt.Sprintf(" reverse-direction-silent-for=%ds", pl.dupPause/1e9)
	}
	if pl.recvStall > 0 && pl.wiring == WireMulti {
		desc += fmt.Sprintf(" receiver-starts-reading-after=%ds", pl.recvStall/1e9)
	}
	if len(pl.keepAt) > 0 {
		desc += fmt.Sprintf(" keep-alive packets before frame(s) %v", pl.keepAt)
	}
	if pl.resvMask != 0 {
		desc += fmt.Sprintf(" reserved flag bits %#02x set by the peer in frame %d", pl.resvMask, pl.resvAt)
	}
	if pl.twoSess {
		desc += fmt.Sprintf(" two-sessions: close after %d receives, reconnect, second-session-frames=%v", pl.recv1, pl.lens2)
		if pl.cut1 >= 0 {
			desc += fmt.Sprintf(" (the peer ends the first session after %d bytes)", pl.cut1)
		}
	}
	if pl.cutKind != cutNone {
		desc += fmt.Sprintf("@%d", pl.cutAt)
	}
	desc += fmt.Sprintf(" seg=%d window=%d ipv6=%v", pl.segMode, pl.window, pl.v6)
	res.Sample = map[string]any{"plan": desc, "sends": len(sends), "receives": len(recvs), "wire_bytes_seen_by_peer": len(wire)}
	if v == nil && bad == nil {
		if pl.wiring == WireMulti {
			bad = oracleMulti(frames, frames2, recvs)
		} else if pl.resvMask != 0 {
			bad = oracleKeepAlive(frames, recvs)
			if bad != nil {
				bad.Key = "reserved-flags/" + bad.Key
				bad.Msg = fmt.Sprintf("the peer set reserved flag bits %#02x in the header of frame %d: ", pl.resvMask, pl.resvAt) + bad.Msg
			}
		} else if len(pl.keepAt) > 0 {
			bad = oracleKeepAlive(frames, recvs)
		} else if pl.twoSess {
			pp := *pl
			pp.wiring = WireSUTRecv
			if pl.cut1 >= 0 {
				pp.cutKind, pp.cutAt = cutFIN, pl.cut1
			}
			bad = oracle(&pp, frames, recvs, nil, nil)
			if bad == nil {
				pp.cutKind, pp.cutAt = cutNone, 0
				bad = oracle(&pp, frames2, recvs2, nil, nil)
				if bad != nil {
					bad.Key = "second-session/" + bad.Key
				}
			}
		} else if pl.wiring == WireDuplex {
			pp := *pl
			pp.wiring = WirePair
			bad = oracle(&pp, frames, recvs, sends, nil)
			if bad == nil {
				bad = oracle(&pp, frames2, recvs2, sends2, nil)
			}
			if bad != nil {
				bad.Key = "duplex/" + bad.Key
			}
		} else {
			bad = oracle(pl, frames, recvs, sends, wire)
		}
		if bad != nil {
			bad.Msg = desc + "\n" + bad.Msg
		}
	}
	if v == nil && bad == nil {
		for _, w2 := range extraWires {
			// every message on a further connection is a whole frame of one of the payloads (the last may be cut short)
			pos := 0
			for pos < len(w2) && bad == nil {
				okf := false
				if len(w2)-pos >= 4 && w2[pos] == 0 && w2[pos+1]&0xFE == 0 {
					l := int(w2[pos+1]&1)<<16 | int(w2[pos+2])<<8 | int(w2[pos+3])
					for _, p := range frames {
						if len(p) == l && bytes.HasPrefix(p, w2[pos+4:min(len(w2), pos+4+l)]) {
							okf = true
						}
					}
					if okf {
						pos += 4 + l
					}
				} else if len(w2)-pos < 4 {
					break // a header cut short by the end of the connection
				}
				if !okf {
					bad = &hx.Violation{Class: "wire_format", Key: "reconnect",
						Msg: fmt.Sprintf("%s\nthe sender opened a further connection on its own and sent %d bytes on it; at offset %d they are not a session message carrying one of the payloads: % x", desc, len(w2), pos, window(w2, pos))}
				}
			}
		}
	}
	if v == nil && bad == nil {
		for i := range arenas {
			if !bytes.Equal(arenas[i], pristines[i]) {
				at := eqPrefix(arenas[i], pristines[i])
				bad = &hx.Violation{Class: "caller_memory_modified", Key: wireNames[pl.wiring],
					Msg: fmt.Sprintf("%s\nthe payloads were adjacent sub-slices of one %d-byte buffer; after the run the caller's buffer differs from what it held, first at offset %d (now % x, before % x)",
						desc, len(arenas[i]), at, window(arenas[i], at), window(pristines[i], at))}
				break
			}
		}
	}
	res.Violation = bad
	hx.Finish(res, w, v, false)
	return res
}

func describe(r recvRes) string {
	if r.err != nil {
		return "error(" + r.err.Error() + ")"
	}
	return fmt.Sprintf("%d bytes", len(r.data))
}

// oracle evaluates the recorded sends, receives and wire bytes against the independent framer.
func oracle(pl *plan, frames [][]byte, recvs []recvRes, sends []sendRes, wire []byte) *hx.Violation {
	var legal [][]byte
	var stream []byte
	var ends []int
	for _, p := range frames {
		if len(p) <= maxLen {
			legal = append(legal, p)
			stream = append(stream, frame(p)...)
			ends = append(ends, len(stream))
		}
	}
	cut := pl.cutKind != cutNone
	delivered := len(stream)
	if cut && !(pl.wiring == WirePair && pl.cutKind == cutLocal) {
		delivered = pl.cutAt
	}
	complete := 0
	for _, e := range ends {
		if e <= delivered {
			complete++
		}
	}

	// ---- sender side
	if pl.wiring != WireSUTRecv {
		for i, p := range frames {
			if i >= len(sends) {
				break
			}
			if len(p) > maxLen && sends[i].err == nil {
				return &hx.Violation{Class: "not_refused", Key: lenBucket(len(p)),
					Msg: fmt.Sprintf("Send of a %d-byte payload (more than the 17-bit length field can express) returned no error", len(p))}
			}
			readerStayed := pl.wiring == WireSUTSend
			if pl.wiring == WirePair {
				readerStayed = len(recvs) == len(legal)
				for _, r := range recvs {
					if r.err != nil {
						readerStayed = false
					}
				}
			}
			if len(p) <= maxLen && sends[i].err != nil && !cut && readerStayed {
				return &hx.Violation{Class: "spurious_send_error", Key: lenBucket(len(p)),
					Msg: fmt.Sprintf("Send of a %d-byte payload failed on a healthy connection: %v", len(p), sends[i].err)}
			}
		}
	}
	if pl.wiring == WireSUTSend {
		want := stream
		if cut && len(want) > pl.cutAt {
			want = want[:pl.cutAt]
		}
		if !cut && !bytes.Equal(wire, want) || cut && !bytes.HasPrefix(want, wire) {
			// find the frame in which the streams diverge
			d := 0
			for d < len(wire) && d < len(want) && wire[d] == want[d] {
				d++
			}
			fi := 0
			for fi < len(ends)-1 && ends[fi] <= d {
				fi++
			}
			b := "none"
			if fi < len(legal) {
				b = lenBucket(len(legal[fi]))
			}
			return &hx.Violation{Class: "wire_format", Key: b,
				Msg: fmt.Sprintf("bytes on the wire differ from the RFC 1002 session-message framing at stream offset %d (frame #%d, %s payload): peer saw %d bytes, expected %d; around the divergence got % x want % x",
					d, fi, b, len(wire), len(want), window(wire, d), window(want, d))}
		}
	}

	// ---- receiver side
	if pl.wiring != WireSUTSend {
		ok := 0
		sawErr := false
		for _, r := range recvs {
			if r.err != nil {
				sawErr = true
				continue
			}
			if sawErr {
				return &hx.Violation{Class: "fabricated", Key: "after-error",
					Msg: fmt.Sprintf("Receive returned a %d-byte message after it had already reported the end of the stream; results: %s", len(r.data), results(recvs))}
			}
			if ok >= complete {
				return &hx.Violation{Class: "fabricated", Key: cutNames[pl.cutKind],
					Msg: fmt.Sprintf("Receive #%d returned a %d-byte message although only %d frame(s) were completely delivered (stream ended after %d of %d bytes); results: %s",
						ok, len(r.data), complete, delivered, len(stream), results(recvs))}
			}
			if !bytes.Equal(r.data, legal[ok]) {
				return &hx.Violation{Class: "boundary", Key: lenBucket(len(legal[ok])),
					Msg: fmt.Sprintf("Receive #%d returned %d bytes, the payload sent was %d bytes (equal prefix: %d bytes); results: %s", ok, len(r.data), len(legal[ok]), eqPrefix(r.data, legal[ok]), results(recvs))}
			}
			ok++
		}
		mustAll := !cut || pl.cutKind == cutFIN
		if mustAll && ok < complete {
			return &hx.Violation{Class: "spurious_receive_error", Key: lenBucket(len(legal[ok])),
				Msg: fmt.Sprintf("only %d of %d completely delivered frames were returned; results: %s", ok, complete, results(recvs))}
		}
		if cut && !sawErr {
			return &hx.Violation{Class: "no_error_at_end_of_stream", Key: cutNames[pl.cutKind],
				Msg: "the stream ended but Receive never reported an error; results: " + results(recvs)}
		}
	}
	return nil
}

func window(b []byte, at int) []byte {
	lo, hi := at-4, at+8
	if lo < 0 {
		lo = 0
	}
	if hi > len(b) {
		hi = len(b)
	}
	if lo > hi {
		lo = hi
	}
	return b[lo:hi]
}

func eqPrefix(a, b []byte) int {
	n := 0
	for n < len(a) && n < len(b) && a[n] == b[n] {
		n++
	}
	return n
}

func results(rs []recvRes) string {
	s := "["
	for i, r := range rs {
		if i > 0 {
			s += ", "
		}
		s += describe(r)
	}
	return s + "]"
}

func receiveAll(tr transport.Transport, expect int, cut bool) []recvRes {
	var out []recvRes
	errs := 0
	if !cut && expect == 0 {
		return nil // nothing will ever arrive and nothing ends the stream
	}
	for {
		d, err := tr.Receive()
		out = append(out, recvRes{d, err})
		if err != nil {
			errs++
			if errs >= 3 {
				return out
			}
			continue
		}
		if errs > 0 {
			return out // a success after an error: reported by the oracle
		}
		if !cut && len(out) == expect {
			return out
		}
		if len(out) > expect+2 {
			return out
		}
	}
}

// receiveLenient keeps calling Receive through errors (a keep-alive may be rejected with an error and the
// stream still be in sync afterwards) until the stream has ended for good.
func receiveLenient(tr transport.Transport, maxCalls int) []recvRes {
	var out []recvRes
	consecutive := 0
	for len(out) < maxCalls+8 && consecutive < 3 {
		d, err := tr.Receive()
		out = append(out, recvRes{d, err})
		if err != nil {
			consecutive++
		} else {
			consecutive = 0
		}
	}
	return out
}

// oracleKeepAlive: whatever the receiver does with keep-alive packets, every message it returns without an
// error must be the next payload the peer sent, in order; errors are always acceptable here.
func oracleKeepAlive(frames [][]byte, recvs []recvRes) *hx.Violation {
	var legal [][]byte
	for _, p := range frames {
		if len(p) <= maxLen {
			legal = append(legal, p)
		}
	}
	ok := 0
	for _, r := range recvs {
		if r.err != nil {
			continue
		}
		if ok >= len(legal) {
			return &hx.Violation{Class: "fabricated", Key: "keep-alive",
				Msg: fmt.Sprintf("Receive returned a %d-byte message after all %d messages of the peer had been returned; results: %s", len(r.data), len(legal), results(recvs))}
		}
		if !bytes.Equal(r.data, legal[ok]) {
			return &hx.Violation{Class: "boundary", Key: "keep-alive/" + lenBucket(len(legal[ok])),
				Msg: fmt.Sprintf("with keep-alive packets in the stream, successful Receive #%d returned %d bytes, the next payload the peer sent has %d bytes (equal prefix %d); results: %s",
					ok, len(r.data), len(legal[ok]), eqPrefix(r.data, legal[ok]), results(recvs))}
		}
		ok++
	}
	return nil
}

// oracleMulti: two tasks sent on one transport concurrently. Frames of the two senders may interleave in
// any order, but every received message must be, intact, the next not yet received frame of one of the
// senders (per-sender order is preserved by the byte stream), and all of them must arrive.
func oracleMulti(f1, f2 [][]byte, recvs []recvRes) *hx.Violation {
	var q [2][][]byte
	for _, p := range f1 {
		if len(p) <= maxLen {
			q[0] = append(q[0], p)
		}
	}
	for _, p := range f2 {
		if len(p) <= maxLen {
			q[1] = append(q[1], p)
		}
	}
	want := len(q[0]) + len(q[1])
	got := 0
	// reach[i][j]: the messages received so far can be explained by the first i frames of sender 1 and the
	// first j frames of sender 2 (identical frames of the two senders make a greedy match ambiguous)
	reach := map[[2]int]bool{{0, 0}: true}
	for _, r := range recvs {
		if r.err != nil {
			return &hx.Violation{Class: "spurious_receive_error", Key: "multi-sender",
				Msg: fmt.Sprintf("two tasks sent %d frames on one transport at the same time; Receive failed after %d of them: %v; results: %s", want, got, r.err, results(recvs))}
		}
		next := map[[2]int]bool{}
		for st := range reach {
			if st[0] < len(q[0]) && bytes.Equal(r.data, q[0][st[0]]) {
				next[[2]int{st[0] + 1, st[1]}] = true
			}
			if st[1] < len(q[1]) && bytes.Equal(r.data, q[1][st[1]]) {
				next[[2]int{st[0], st[1] + 1}] = true
			}
		}
		if len(next) == 0 {
			return &hx.Violation{Class: "boundary", Key: "multi-sender/" + lenBucket(len(r.data)),
				Msg: fmt.Sprintf("two tasks sent on one transport at the same time; received message #%d (%d bytes) is not the next frame of either sender (frames of concurrent senders were interleaved on the wire); results: %s", got, len(r.data), results(recvs))}
		}
		reach = next
		got++
	}
	if got < want {
		return &hx.Violation{Class: "spurious_receive_error", Key: "multi-sender", Msg: fmt.Sprintf("only %d of %d frames arrived", got, want)}
	}
	return nil
}
