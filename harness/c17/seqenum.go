package c17

import (
	"fmt"

	"github.com/TheManticoreProject/Manticore/network/netbios/nbtns"

	"verif.local/harness/hx"
	"verif.local/sim/rt"
)

// Exhaustive sequential histories ("all operation sequences over a small
// alphabet up to a depth bound"): one task, fresh table per sequence, the
// model walked operation by operation. Sharded over run indexes.

func seqAlphabet() []In {
	var a []In
	ttl := [2]int64{20e9, 60e9}
	for n := 0; n < 2; n++ {
		for _, g := range []bool{false, true} {
			for ad := 0; ad < 2; ad++ {
				a = append(a, In{Kind: OpRegister, Name: n, Group: g, Addr: ad, Form: (n + ad) % 2, TTL: ttl[n]})
			}
		}
	}
	for n := 0; n < 2; n++ {
		a = append(a, In{Kind: OpQuery, Name: n})
	}
	for n := 0; n < 2; n++ {
		for ad := 0; ad < 2; ad++ {
			a = append(a, In{Kind: OpRelease, Name: n, Addr: ad, Form: ad})
			a = append(a, In{Kind: OpRefresh, Name: n, Addr: ad, Form: 1 - ad})
		}
	}
	for n := 0; n < 2; n++ {
		a = append(a, In{Kind: OpMark, Name: n})
	}
	a = append(a, In{Kind: OpClean})
	a = append(a, In{Kind: OpJump, TTL: 31e9 + 1})
	return a
}

// ttlAlphabet: one name, two addresses, and time. Registrations of the same name with different lifetimes, refreshes,
// two sizes of clock jump and the sweep -- the histories in which a lease is computed from the wrong base (the old
// deadline instead of now, the creator's lifetime instead of the joiner's, ...). Where the statement is silent about
// which lifetime a group has after a further member joined, the model keeps every variant alive and narrows them
// down with every later observation (A.5).
func ttlAlphabet() []In {
	return []In{
		{Kind: OpRegister, Group: true, Addr: 0, TTL: 20e9},
		{Kind: OpRegister, Group: true, Addr: 1, Form: 1, TTL: 60e9},
		{Kind: OpRegister, Group: true, Addr: 1, TTL: 24 * 3600e9},
		{Kind: OpRegister, Addr: 0, Form: 1, TTL: 20e9},
		{Kind: OpRegister, Addr: 1, TTL: 60e9},
		{Kind: OpRefresh, Addr: 0},
		{Kind: OpRefresh, Addr: 1, Form: 1},
		{Kind: OpRelease, Addr: 0, Form: 1},
		{Kind: OpQuery},
		{Kind: OpClean},
		{Kind: OpJump, TTL: 11e9 + 1},
		{Kind: OpJump, TTL: 31e9 + 1},
	}
}

func runSeqEnum(seed uint64, index int64, o hx.Opts) *hx.Result {
	res := &hx.Result{Property: "C17", Scenario: "seqenum", Index: index, Seed: seed, Extra: map[string]int64{}}
	depth := int(o.Param["depth"])
	if depth == 0 {
		depth = 3
	}
	shards := o.Param["shards"]
	if shards == 0 {
		shards = 16
	}
	cfg := rt.Config{Seed: seed, Replay: o.Replay, Verbose: false, NPoints: o.NPoints, MaxSteps: 1 << 40}
	w := rt.NewWorld(cfg)
	w.NoSkip = true
	alpha := seqAlphabet()
	if o.Param["ttl"] == 1 {
		alpha = ttlAlphabet()
		res.Scenario = "ttlenum"
	}
	total := int64(1)
	for i := 0; i < depth; i++ {
		total *= int64(len(alpha))
	}
	states := map[uint64]struct{}{}
	var bad *hx.Violation
	var count int64
	var sample []string
	v := w.Run(func() {
		v6Addrs, tailTwin = false, false
		rt.JumpClock(1)
		cl := &client{}
		// every length 1..depth: sequences of length < depth are prefixes, so checking after each step covers them
		for q := index % shards; q < total; q += shards {
			rt.ResetSpin()
			ns := nbtns.NewNetBIOSNameServer(q%2 == 0)
			cur := []*State{mk(rt.Now(), nil)}
			cl.snaps = cl.snaps[:0]
			x := q
			var desc []string
			for d := 0; d < depth; d++ {
				in := alpha[x%int64(len(alpha))]
				x /= int64(len(alpha))
				var out Out
				var before [2]bool
				if in.Kind == OpClean {
					for n := 0; n < 2; n++ {
						_, _, err := ns.QueryName(names[n])
						before[n] = err == nil
					}
				}
				if in.Kind == OpJump {
					rt.JumpClock(in.TTL)
					out = Out{OK: true}
				} else {
					out = apply(ns, cl, in, false)
				}
				if in.Kind == OpClean {
					for n := 0; n < 2; n++ {
						if _, _, err := ns.QueryName(names[n]); err != nil && before[n] {
							rt.Probe(PSweepRemoved)
						}
					}
				}
				desc = append(desc, in.String()+" -> "+out.String())
				var next []*State
				seenK := map[string]bool{}
				for _, s := range cur {
					for _, n := range Step(s, in, out) {
						if !seenK[n.key] {
							seenK[n.key] = true
							next = append(next, n)
							states[n.AbstractKey()] = struct{}{}
						}
					}
				}
				if len(next) == 0 {
					bad = &hx.Violation{Class: "nonlinearizable", Key: in.Kind.String() + "->" + outClass(out),
						Msg: fmt.Sprintf("sequential history #%d (depth %d) leaves the model: the last operation cannot have this result\n  %s", q, depth, joinSeq(desc))}
					return
				}
				cur = next
				cl.checkSnaps()
				if cl.bad != "" {
					bad = &hx.Violation{Class: "result_mutated", Key: "query_result", Msg: cl.bad + "\n  " + joinSeq(desc)}
					return
				}
			}
			rt.ReapBlockedSUT() // a table that owns goroutines (none on the pinned tree) is dropped here
			count++
			if count == 1 || (count == 1000 && len(sample) < 2) {
				sample = append(sample, joinSeq(desc))
			}
		}
	})
	res.SimNs = w.SimNow()
	res.Violation = bad
	res.NonTrivial = true
	res.Sample = map[string]any{"sequences_checked_in_this_shard": count, "depth": depth, "alphabet": len(alpha), "examples": sample}
	res.Extra["seqenum_sequences"] = count
	for k := range states {
		res.States = append(res.States, k)
	}
	hx.Finish(res, w, v, false)
	// the signature of an enumeration shard is its shard number (no choices are drawn)
	res.Hash = 0x5e9e000000000000 | uint64(o.Param["ttl"])<<32 | uint64(index%shards)<<8 | uint64(depth)
	return res
}

func joinSeq(d []string) string {
	s := ""
	for i, x := range d {
		if i > 0 {
			s += " ; "
		}
		s += x
	}
	return s
}
