package c17

import (
	"fmt"
	"time"

	"github.com/TheManticoreProject/Manticore/network/netbios/nbtns"
	"github.com/anishathalye/porcupine"

	"verif.local/harness/hx"
	"verif.local/sim/rt"
)

// Systematic part of the "schedules" quantifier: for every prefix history, every operation A, every short
// history B and every statement boundary k of A, B is run in its entirety while A is suspended at boundary k
// (a schedule with a single preemption), followed by an observing query. Complements the seeded search, which
// reaches such a window only by luck. Sharded over run indexes.

func pairAlphabet() []In {
	const ttl = 20e9
	return []In{
		{Kind: OpRegister, Addr: 0, TTL: ttl},
		{Kind: OpRegister, Addr: 1, Form: 1, TTL: ttl},
		{Kind: OpRegister, Group: true, Addr: 0, Form: 1, TTL: ttl},
		{Kind: OpRegister, Group: true, Addr: 1, TTL: ttl},
		{Kind: OpQuery},
		{Kind: OpRelease, Addr: 0},
		{Kind: OpRelease, Addr: 1, Form: 1},
		{Kind: OpRefresh, Addr: 0, Form: 1},
		{Kind: OpRefresh, Addr: 1},
		{Kind: OpMark},
		{Kind: OpClean},
		{Kind: OpJump, TTL: 31e9 + 1},
	}
}

func seqs(alpha []In, minLen, maxLen int) [][]In {
	var out [][]In
	if minLen == 0 {
		out = append(out, nil)
	}
	cur := [][]In{nil}
	for l := 1; l <= maxLen; l++ {
		var next [][]In
		for _, p := range cur {
			for _, a := range alpha {
				next = append(next, append(append([]In(nil), p...), a))
			}
		}
		if l >= minLen {
			out = append(out, next...)
		}
		cur = next
	}
	return out
}

func runPairEnum(seed uint64, index int64, o hx.Opts) *hx.Result {
	res := &hx.Result{Property: "C17", Scenario: "pairenum", Index: index, Seed: seed, Extra: map[string]int64{}}
	prefixLen := int(o.Param["prefix"])
	shards := o.Param["shards"]
	if shards == 0 {
		shards = 16
	}
	maxK := int(o.Param["maxk"])
	if maxK == 0 {
		maxK = 24
	}
	cfg := rt.Config{Seed: seed, Replay: o.Replay, NPoints: o.NPoints, MaxSteps: 1 << 40, PCT: true, ManualSched: true}
	w := rt.NewWorld(cfg)
	w.NoSkip = true
	alpha := pairAlphabet()
	prefixes := seqs(alpha, 0, prefixLen)
	as := alpha[:len(alpha)-1] // A is a table operation, not a clock jump
	bs := seqs(alpha, 1, 2)
	var bad *hx.Violation
	var count int64
	var sample []string
	states := map[uint64]struct{}{}
	// the quick tier runs only some of the shards; which ones rotates with the base seed
	seedOffset := uint64(o.Param["rot"]) % uint64(shards)
	v := w.Run(func() {
		v6Addrs, tailTwin = false, false
		rt.JumpClock(1)
		var q int64
		for _, pre := range prefixes {
			for _, a := range as {
				for _, b := range bs {
					q++
					if q%shards != (index+int64(seedOffset))%shards {
						continue // all boundaries k of one (prefix, A, B) triple belong to one shard
					}
					for k := 1; k <= maxK; k++ {
						rt.ResetSpin()
						if v, desc, reached := onePair(pre, a, b, k, states); v != nil {
							v.Msg = fmt.Sprintf("single-preemption schedule #%d: %s\n%s", q, desc, v.Msg)
							bad = v
							return
						} else if !reached {
							break // A has fewer than k statement boundaries: larger k repeat the sequential schedule
						} else if count++; count == 1 || count == 5000 {
							sample = append(sample, desc)
						}
					}
				}
			}
		}
	})
	res.SimNs = w.SimNow()
	res.Violation = bad
	res.NonTrivial = true
	res.Sample = map[string]any{"schedules_checked_in_this_shard": count, "prefix_length": prefixLen, "alphabet": len(alpha), "examples": sample}
	res.Extra["pairenum_schedules"] = count
	for k := range states {
		res.States = append(res.States, k)
	}
	hx.Finish(res, w, v, false)
	res.Hash = 0x9a17000000000000 | uint64(index%shards)<<8 | uint64(prefixLen)
	return res
}

// onePair executes one single-preemption schedule; reached=false if A finished before its k-th boundary.
func onePair(pre []In, a In, b []In, k int, states map[uint64]struct{}) (*hx.Violation, string, bool) {
	ns := nbtns.NewNetBIOSNameServer(true)
	start := rt.Now()
	var hist []opRec
	main := &client{id: 0}
	exec := func(cl *client, in In) {
		call := rt.Seq()
		out := apply(ns, cl, in, false)
		ret := rt.Seq()
		hist = append(hist, opRec{Client: cl.id, In: in, Out: out, Call: call, Ret: ret})
	}
	for _, in := range pre {
		exec(main, in)
	}
	ca, cb := &client{id: 1}, &client{id: 2}
	var histA, histB []opRec
	var pointsA uint64
	ta := rt.GoHarness("A", "", func() {
		s0 := rt.Seq()
		call := rt.Seq()
		out := apply(ns, ca, a, false)
		ret := rt.Seq()
		pointsA = ret - s0
		histA = append(histA, opRec{Client: 1, In: a, Out: out, Call: call, Ret: ret})
	})
	rt.SetSched(ta, 100, k)
	tb := rt.GoHarness("B", "", func() {
		for _, in := range b {
			call := rt.Seq()
			out := apply(ns, cb, in, false)
			ret := rt.Seq()
			histB = append(histB, opRec{Client: 2, In: in, Out: out, Call: call, Ret: ret})
		}
	})
	rt.SetSched(tb, 50, 0)
	rt.Join(ta, -1)
	rt.Join(tb, -1)
	hist = append(hist, histA...)
	hist = append(hist, histB...)
	exec(main, In{Kind: OpQuery})
	rt.ReapBlockedSUT() // a table that owns goroutines (none on the pinned tree) is dropped here
	desc := ""
	for _, in := range pre {
		desc += in.String() + "; "
	}
	desc += fmt.Sprintf("then A = %s suspended at its statement boundary %d while B = ", a, k)
	for i, in := range b {
		if i > 0 {
			desc += ", "
		}
		desc += in.String()
	}
	desc += " runs; then Query(X)"
	// A was preempted iff B's first operation was invoked before A returned
	reached := len(histA) == 1 && len(histB) > 0 && histB[0].Call < histA[0].Ret
	_ = pointsA
	for _, cl := range []*client{main, ca, cb} {
		cl.checkSnaps()
		if cl.bad != "" {
			return &hx.Violation{Class: "result_mutated", Key: "query_result", Msg: cl.bad}, desc, reached
		}
	}
	seen := map[uint64]struct{}{}
	model := PorcupineModel(start, seen)
	r := porcupine.CheckOperationsTimeout(model, toOps(hist, 0), 20*time.Second)
	for s := range seen {
		states[s] = struct{}{}
	}
	if r == porcupine.Illegal {
		_, culprit := checkLinearizable(hist, start, nil)
		var lines []string
		for _, h := range hist {
			lines = append(lines, fmt.Sprintf("c%d [%d,%d] %s -> %s", h.Client, h.Call, h.Ret, h.In, h.Out))
		}
		return &hx.Violation{Class: "nonlinearizable", Key: culprit, Msg: "not linearizable; first operation that cannot be explained: " + culprit + "\n" + joinLines(lines)}, desc, reached
	}
	return nil, desc, reached
}
