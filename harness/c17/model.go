package c17

import (
	"fmt"
	"hash/fnv"
	"sort"
	"strings"
	"sync/atomic"

	"github.com/anishathalye/porcupine"
)

// Sequential reference model of the NBNS name table, written from the
// property statement (not from the implementation). Where the statement is
// silent the model is nondeterministic and accepts every listed outcome
// (DESIGN.md A.5).

type OpKind int

const (
	OpRegister OpKind = iota
	OpQuery
	OpRelease
	OpRefresh
	OpMark
	OpClean
	OpJump
	numOpKinds
)

var opNames = [...]string{"Register", "Query", "Release", "Refresh", "MarkConflict", "CleanExpired", "ClockJump"}

func (k OpKind) String() string { return opNames[k] }

// In is the input of one operation.
type In struct {
	Kind  OpKind
	Name  int   // index into names
	Group bool  // Register: name type
	Addr  int   // address index
	Form  int   // 0 = 4-byte, 1 = 16-byte form of the address
	TTL   int64 // Register: ttl (ns); ClockJump: amount (ns)
	// Slack: the amounts of the clock jumps that overlap this operation in the recorded history (0 = none). An
	// operation reads the clock somewhere between its call and its return, not necessarily at its linearization
	// point: with a jump inside that window the value it used may lie that much behind.
	Slack [4]int64
}

// nows lists the clock values an operation may have used, given the state's clock at its linearization point.
func nows(s *State, in In) []int64 {
	out := []int64{s.now}
	for _, j := range in.Slack {
		if j <= 0 {
			continue
		}
		for _, v := range append([]int64(nil), out...) {
			if v-j >= 0 {
				dup := false
				for _, o := range out {
					if o == v-j {
						dup = true
					}
				}
				if !dup {
					out = append(out, v-j)
				}
			}
		}
	}
	return out
}

// Out is the observable result.
type Out struct {
	OK     bool  // err == nil
	Group  bool  // Query: returned type
	Owners []int // Query: returned owners as address indexes (-1 = unknown address), in returned order
	Wild   bool  // result unknown (operation still pending in a history prefix): any result the model allows
}

func (in In) String() string {
	n := string(rune('X' + in.Name))
	a := string(rune('a' + in.Addr))
	if in.Form == 1 {
		a += "16"
	}
	switch in.Kind {
	case OpRegister:
		t := "U"
		if in.Group {
			t = "G"
		}
		return fmt.Sprintf("Register(%s,%s,%s,ttl=%ds)", n, t, a, in.TTL/1e9)
	case OpQuery:
		return fmt.Sprintf("Query(%s)", n)
	case OpRelease:
		return fmt.Sprintf("Release(%s,%s)", n, a)
	case OpRefresh:
		return fmt.Sprintf("Refresh(%s,%s)", n, a)
	case OpMark:
		return fmt.Sprintf("MarkConflict(%s)", n)
	case OpClean:
		return "CleanExpired()"
	case OpJump:
		return fmt.Sprintf("ClockJump(+%.9gs)", float64(in.TTL)/1e9)
	}
	return "?"
}

func (o Out) String() string {
	if !o.OK {
		return "err"
	}
	if o.Owners == nil {
		return "ok"
	}
	t := "U"
	if o.Group {
		t = "G"
	}
	var s []string
	for _, a := range o.Owners {
		if a < 0 {
			s = append(s, "?")
		} else {
			s = append(s, string(rune('a'+a)))
		}
	}
	return "ok " + t + "[" + strings.Join(s, ",") + "]"
}

// ExpiredMet counts model steps that met a name past its TTL but not yet swept (reach probe).
var ExpiredMet int64

type rec struct {
	name     int
	group    bool
	conflict bool
	owners   uint32 // bit set over address indexes
	expiry   int64
	refresh  uint32 // set (bit i = TTLChoices[i]) of the TTLs this record was registered with; which of them a
	// refresh restarts is not pinned down by the statement once a group has been joined with different TTLs
}

// TTLChoices are the TTL values the harness uses (index = bit in rec.refresh).
var TTLChoices = [...]int64{0, 20e9, 60e9, 24 * 3600e9, 300e6}

func ttlBit(ttl int64) uint32 {
	for i, t := range TTLChoices {
		if t == ttl {
			return 1 << uint(i)
		}
	}
	panic("harness: TTL outside TTLChoices")
}

// State is immutable; key is its canonical form.
type State struct {
	now  int64
	recs []rec // sorted by name
	key  string
}

func mk(now int64, recs []rec) *State {
	sort.Slice(recs, func(i, j int) bool { return recs[i].name < recs[j].name })
	var b strings.Builder
	fmt.Fprintf(&b, "%d", now)
	for _, r := range recs {
		fmt.Fprintf(&b, "|%d,%v,%v,%x,%d,%x", r.name, r.group, r.conflict, r.owners, r.expiry, r.refresh)
	}
	return &State{now: now, recs: recs, key: b.String()}
}

func (s *State) find(name int) (rec, bool) {
	for _, r := range s.recs {
		if r.name == name {
			return r, true
		}
	}
	return rec{}, false
}

func (s *State) with(r rec) *State {
	out := make([]rec, 0, len(s.recs)+1)
	for _, x := range s.recs {
		if x.name != r.name {
			out = append(out, x)
		}
	}
	out = append(out, r)
	return mk(s.now, out)
}

func (s *State) without(name int) *State {
	out := make([]rec, 0, len(s.recs))
	for _, x := range s.recs {
		if x.name != name {
			out = append(out, x)
		}
	}
	return mk(s.now, out)
}

func popcount(x uint32) int {
	n := 0
	for ; x != 0; x &= x - 1 {
		n++
	}
	return n
}

// AbstractKey hashes the state without absolute times (for the "distinct model states" measure).
func (s *State) AbstractKey() uint64 {
	h := fnv.New64a()
	for _, r := range s.recs {
		fmt.Fprintf(h, "|%d,%v,%v,%x,%v", r.name, r.group, r.conflict, r.owners, r.expiry < s.now)
	}
	return h.Sum64()
}

// Step returns every state the model may be in after `in` produced `out` in state s (empty = impossible).
func Step(s *State, in In, out Out) []*State {
	if out.Wild {
		if in.Kind == OpQuery || in.Kind == OpJump || in.Kind == OpClean {
			if in.Kind == OpQuery {
				return []*State{s}
			}
			return Step(s, in, Out{OK: true})
		}
		return append(Step(s, in, Out{OK: true}), Step(s, in, Out{OK: false})...)
	}
	switch in.Kind {
	case OpJump:
		return []*State{mk(s.now+in.TTL, s.recs)}
	case OpClean:
		// removes exactly the names with expiry < now; expiry == now is not pinned down
		var keep []rec
		var boundary []rec
		earliest := s.now
		for _, n := range nows(s, in) {
			if n < earliest {
				earliest = n
			}
		}
		for _, r := range s.recs {
			switch {
			case r.expiry < earliest:
			case r.expiry <= s.now:
				// at the boundary, or expired only by the later of the clock values the sweep may have read
				boundary = append(boundary, r)
			default:
				keep = append(keep, r)
			}
		}
		var res []*State
		for mask := 0; mask < 1<<len(boundary); mask++ {
			rs := append([]rec(nil), keep...)
			for i, b := range boundary {
				if mask&(1<<i) != 0 {
					rs = append(rs, b)
				}
			}
			res = append(res, mk(s.now, rs))
		}
		return res
	}
	r, present := s.find(in.Name)
	var res []*State
	if present && r.expiry <= s.now {
		atomic.AddInt64(&ExpiredMet, 1)
	}
	if !present || r.expiry <= s.now {
		// absent, or past its TTL but not swept: may be treated as absent
		res = append(res, stepAbsent(s, in, out, present)...)
	}
	if present {
		if r.conflict && in.Kind != OpQuery && in.Kind != OpMark {
			// register / release / refresh of a conflict-marked name: error without change is acceptable
			if !out.OK {
				res = append(res, s)
			}
		}
		res = append(res, stepPresent(s, r, in, out)...)
	}
	return res
}

func stepAbsent(s *State, in In, out Out, stale bool) []*State {
	switch in.Kind {
	case OpRegister:
		if !out.OK {
			return nil
		}
		var res []*State
		for _, n := range nows(s, in) {
			res = append(res, s.with(rec{name: in.Name, group: in.Group, owners: 1 << uint(in.Addr), expiry: n + in.TTL, refresh: ttlBit(in.TTL)}))
		}
		return res
	default: // Query, Release, Refresh, Mark on an absent name: error, no change
		if out.OK {
			return nil
		}
		return []*State{s}
	}
}

func stepPresent(s *State, r rec, in In, out Out) []*State {
	bit := uint32(1) << uint(in.Addr)
	switch in.Kind {
	case OpRegister:
		if r.group && in.Group {
			if !out.OK {
				return nil
			}
			n := r
			n.owners |= bit
			n.refresh |= ttlBit(in.TTL)
			// whether a (re-)registration of a group member restarts the TTL is not pinned down
			res := []*State{s.with(n)}
			for _, now := range nows(s, in) {
				a := n
				a.expiry = now + in.TTL
				res = append(res, s.with(a))
			}
			return res
		}
		var res []*State
		if !r.group && !in.Group && r.owners == bit && out.OK {
			// the owner of a unique name registers it again: success (refresh) is acceptable
			for _, now := range nows(s, in) {
				n := r
				n.expiry = now + in.TTL
				n.refresh |= ttlBit(in.TTL)
				res = append(res, s.with(n))
			}
		}
		if !out.OK {
			res = append(res, s)
		}
		return res
	case OpQuery:
		if r.conflict {
			if out.OK {
				return nil
			}
			return []*State{s}
		}
		if !out.OK || out.Group != r.group {
			return nil
		}
		var got uint32
		for _, a := range out.Owners {
			if a < 0 || got&(1<<uint(a)) != 0 {
				return nil // unknown or duplicated owner
			}
			got |= 1 << uint(a)
		}
		if got != r.owners {
			return nil
		}
		return []*State{s}
	case OpRelease:
		if r.owners&bit == 0 {
			if out.OK {
				return nil
			}
			return []*State{s}
		}
		if !out.OK {
			return nil
		}
		n := r
		n.owners &^= bit
		if n.owners == 0 {
			return []*State{s.without(r.name)}
		}
		return []*State{s.with(n)}
	case OpRefresh:
		if r.owners&bit == 0 {
			if out.OK {
				return nil
			}
			return []*State{s}
		}
		if !out.OK {
			return nil
		}
		var res []*State
		for i, t := range TTLChoices {
			if r.refresh&(1<<uint(i)) != 0 {
				for _, now := range nows(s, in) {
					n := r
					n.expiry = now + t
					res = append(res, s.with(n))
				}
			}
		}
		return res
	case OpMark:
		if !out.OK {
			return nil
		}
		n := r
		n.conflict = true
		return []*State{s.with(n)}
	}
	return nil
}

// Invariant checks that hold in every model state (sanity of the model itself).
func (s *State) Invariant() error {
	for _, r := range s.recs {
		if r.owners == 0 {
			return fmt.Errorf("name %d has no owner", r.name)
		}
		if !r.group && popcount(r.owners) != 1 {
			return fmt.Errorf("unique name %d has %d owners", r.name, popcount(r.owners))
		}
	}
	return nil
}

func hashKey(k string) uint64 {
	h := fnv.New64a()
	h.Write([]byte(k))
	return h.Sum64()
}

// PorcupineModel adapts Step for the linearizability checker.
func PorcupineModel(startNow int64, seen map[uint64]struct{}) porcupine.Model {
	nm := porcupine.NondeterministicModel{
		Init: func() []interface{} { return []interface{}{mk(startNow, nil)} },
		Step: func(state, input, output interface{}) []interface{} {
			next := Step(state.(*State), input.(In), output.(Out))
			res := make([]interface{}, 0, len(next))
			for _, n := range next {
				if seen != nil {
					seen[n.AbstractKey()] = struct{}{}
				}
				res = append(res, n)
			}
			return res
		},
		Equal: func(a, b interface{}) bool { return a.(*State).key == b.(*State).key },
		DescribeOperation: func(in, out interface{}) string {
			return in.(In).String() + " -> " + out.(Out).String()
		},
	}
	return nm.ToModel()
}
