package c17

import (
	"fmt"
	"net"
	"time"

	"github.com/TheManticoreProject/Manticore/network/netbios/nbtns"

	"verif.local/harness/hx"
	"verif.local/sim/rt"
)

// Table sizes the other scenarios never reach (they use three names): thousands of names, most of them past their
// lifetime at the same sweep. Sequential, judged directly: after CleanExpiredNames has returned, every name whose
// lifetime was over before the call is gone (not found, and free for a new owner), every other name is still there
// with its owner. index -> (size, secured).

var bulkSizes = [...]int{700, 1500, 3000}

const bulkRaceRuns = 1536

func BulkEnumSize() int64 { return int64(len(bulkSizes))*2 + bulkRaceRuns }

// runBulkRace: a table of a few hundred names, all past their lifetime; one task sweeps while another hands one of
// the names over (its holder releases it, a new owner registers it for an hour). However the three operations
// interleave, a registration that was acknowledged is there afterwards: the sweep may remove the old lease, never the
// new one. The iteration order of the table's map differs from run to run (seeded), and so does the schedule.
func runBulkRace(seed uint64, index int64, o hx.Opts) *hx.Result {
	res := &hx.Result{Property: "C17", Scenario: "bulkenum", Index: index, Seed: seed, Extra: map[string]int64{}}
	en := hx.AllKinds()
	cfg := rt.Config{Seed: seed, Replay: o.Replay, NPoints: o.NPoints, Bias: hx.Swarm(seed, en), MaxSteps: 4_000_000}
	w := rt.NewWorld(cfg)
	w.NoSkip = true
	var bad *hx.Violation
	n := 0
	v := w.Run(func() {
		v6Addrs, tailTwin = false, false
		rt.JumpClock(1)
		n = 130 + hx.G(200)
		ns := nbtns.NewNetBIOSNameServer(hx.G(2) == 1)
		name := func(i int) string { return fmt.Sprintf("RACE%05d", i) }
		ip := func(i int) net.IP { return net.IP{10, 8, byte(i >> 8), byte(i)} }
		for i := 0; i < n; i++ {
			rt.ResetSpin()
			ns.RegisterName(name(i), nbtns.Unique, ip(i), 20*time.Second)
		}
		rt.JumpClock(31e9)
		x := hx.G(n)
		newOwner := net.IP{10, 9, 9, 9}
		var regErr error
		sweeper := rt.GoHarness("sweeper", "", func() { ns.CleanExpiredNames() })
		mover := rt.GoHarness("hand-over", "", func() {
			ns.ReleaseName(name(x), ip(x)) // may fail: the sweep may have removed the name already
			regErr = ns.RegisterName(name(x), nbtns.Unique, newOwner, time.Hour)
		})
		rt.Join(sweeper, -1)
		rt.Join(mover, -1)
		rt.ResetSpin()
		owners, _, err := ns.QueryName(name(x))
		if regErr == nil && (err != nil || len(owners) != 1 || !owners[0].Equal(newOwner)) {
			bad = &hx.Violation{Class: "nonlinearizable", Key: "Register->ok",
				Msg: fmt.Sprintf("%d names past their lifetime; CleanExpiredNames() ran while name #%d was released by its holder and registered by a new owner for an hour. The registration returned nil, both calls have returned, and Query now says: owners=%v err=%v", n, x, owners, err)}
		}
	})
	res.SimNs = w.SimNow()
	res.Violation = bad
	res.NonTrivial = true
	res.Sample = fmt.Sprintf("hand-over during a sweep of %d expired names", n)
	hx.Finish(res, w, v, false)
	return res
}

func runBulkEnum(seed uint64, index int64, o hx.Opts) *hx.Result {
	if index >= int64(len(bulkSizes))*2 {
		return runBulkRace(seed, index, o)
	}
	res := &hx.Result{Property: "C17", Scenario: "bulkenum", Index: index, Seed: seed, Extra: map[string]int64{}}
	n := bulkSizes[index%int64(len(bulkSizes))]
	secured := index/int64(len(bulkSizes))%2 == 1
	cfg := rt.Config{Seed: seed, Replay: o.Replay, NPoints: o.NPoints, MaxSteps: 1 << 40}
	w := rt.NewWorld(cfg)
	w.NoSkip = true
	var bad *hx.Violation
	v := w.Run(func() {
		v6Addrs, tailTwin = false, false
		rt.JumpClock(1)
		ns := nbtns.NewNetBIOSNameServer(secured)
		name := func(i int) string { return fmt.Sprintf("BULK%05d", i) }
		ip := func(i int) net.IP { return net.IP{10, 8, byte(i >> 8), byte(i)} }
		short := func(i int) bool { return i%4 != 0 } // three in four names get a 20 s lifetime, the rest 24 h
		for i := 0; i < n; i++ {
			rt.ResetSpin()
			ttl := 24 * time.Hour
			if short(i) {
				ttl = 20 * time.Second
			}
			if err := ns.RegisterName(name(i), nbtns.Unique, ip(i), ttl); err != nil {
				bad = &hx.Violation{Class: "nonlinearizable", Key: "Register->err", Msg: fmt.Sprintf("registering the fresh name #%d of %d failed: %v", i, n, err)}
				return
			}
		}
		rt.JumpClock(31e9)
		rt.ResetSpin()
		ns.CleanExpiredNames()
		survivors, lost := 0, 0
		for i := 0; i < n; i++ {
			rt.ResetSpin()
			owners, _, err := ns.QueryName(name(i))
			switch {
			case short(i) && err == nil:
				survivors++
			case !short(i) && (err != nil || len(owners) != 1 || !owners[0].Equal(ip(i))):
				lost++
			}
		}
		if survivors > 0 || lost > 0 {
			bad = &hx.Violation{Class: "nonlinearizable", Key: "Query->ok",
				Msg: fmt.Sprintf("%d names, %d of them 11 s past their lifetime when CleanExpiredNames() was called and returned: %d of those still answer queries afterwards; %d of the names with 24 h lifetimes are gone or changed", n, n-(n+3)/4, survivors, lost)}
			return
		}
		// an expired and swept name is free again
		for i := 1; i < n; i += 97 {
			if !short(i) {
				continue
			}
			rt.ResetSpin()
			if err := ns.RegisterName(name(i), nbtns.Unique, net.IP{10, 9, 9, 9}, time.Hour); err != nil {
				bad = &hx.Violation{Class: "nonlinearizable", Key: "Register->err", Msg: fmt.Sprintf("name #%d was swept, yet a new owner cannot register it: %v", i, err)}
				return
			}
		}
	})
	res.SimNs = w.SimNow()
	res.Violation = bad
	res.NonTrivial = true
	res.Sample = fmt.Sprintf("names=%d secured=%v", n, secured)
	hx.Finish(res, w, v, false)
	res.Hash = 0xb01c000000000000 | uint64(index)
	return res
}
