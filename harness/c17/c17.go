// Package c17 simulates the NBNS name table (nbtns.NetBIOSNameServer) under
// seeded schedules and clock jumps and checks the recorded history for
// linearizability against the reference model, plus result isolation.
package c17

import (
	"bytes"
	"fmt"
	"net"
	"sort"
	"sync/atomic"
	"time"

	"github.com/TheManticoreProject/Manticore/network/netbios/nbtns"
	"github.com/anishathalye/porcupine"

	"verif.local/harness/hx"
	"verif.local/sim/rt"
)

const (
	PPreemptInCritical = rt.PUser + iota
	PSweepRemoved
	PSnapshotOutlivedMutation
	PScribbled
	POverlap
	PExpiredSeen
	PV6Owners
	PTailTwin
)

var ProbeNames = map[int]string{
	PPreemptInCritical:        "run_with_preemption_inside_table_code",
	PSweepRemoved:             "sweep_removed_a_name",
	PSnapshotOutlivedMutation: "query_result_outlived_later_mutation_of_same_name",
	PScribbled:                "caller_overwrote_a_query_result",
	POverlap:                  "two_clients_had_overlapping_operations",
	PExpiredSeen:              "operation_met_expired_unswept_name",
	PV6Owners:                 "run_with_ipv6_owner_addresses",
	PTailTwin:                 "run_with_ipv4_and_ipv6_owners_sharing_last_four_bytes",
}

var names = [...]string{"WORKSTATION", "FILESRV", "DOMAIN"}
var ttlChoices = [...]int64{0, 20e9, 60e9, 24 * 3600e9, 300e6}
var jumpChoices = [...]int64{1e9 + 1, 31e9 + 1, 61e9 + 1, 25*3600e9 + 1, 400e6 + 1}

// v6Addrs: in this run the owners are three distinct IPv6 addresses (the form of an address is then irrelevant).
// Set per run; runs of one worker process are sequential.
var v6Addrs bool

// tailTwin: in this run the third address is a genuine (not IPv4-mapped) IPv6 address whose last four bytes are those
// of the first address: two distinct addresses of different length that share a tail.
var tailTwin bool

var tailTwinAddr = net.IP{0x20, 0x01, 0x0d, 0xb8, 0, 0, 0, 0, 0, 0, 0, 0, 10, 0, 0, 1}

func addrOf(i, form int) net.IP {
	if v6Addrs {
		return net.IP{0xfd, 0, 0, 0, 0, 0, 0, 0, 0, 0, 0, 0, 0, 0, 0, byte(1 + i)}
	}
	if tailTwin && i == 2 {
		return append(net.IP(nil), tailTwinAddr...)
	}
	ip := net.IP{10, 0, 0, byte(1 + i)}
	if form == 1 {
		return ip.To16()
	}
	return ip
}

func addrIndex(ip net.IP) int {
	if len(ip) == 16 && string(ip) == string(tailTwinAddr) {
		return 2
	}
	if len(ip) == 16 && ip[0] == 0xfd && ip[15] >= 1 && ip[15] <= 3 {
		for _, b := range ip[1:15] {
			if b != 0 {
				return -1
			}
		}
		return int(ip[15]) - 1
	}
	v4 := ip.To4()
	if v4 == nil || v4[0] != 10 || v4[1] != 0 || v4[2] != 0 || v4[3] < 1 || v4[3] > 3 {
		return -1
	}
	return int(v4[3]) - 1
}

type opRec struct {
	Client int
	In     In
	Out    Out
	Call   uint64
	Ret    uint64
}

type snapshot struct {
	live []net.IP
	copy [][]byte
	in   In
	dead bool
	at   uint64
}

type client struct {
	id    int
	ops   []In
	log   []opRec
	snaps []*snapshot
	bad   string
}

func (c *client) checkSnaps() {
	for _, s := range c.snaps {
		if s.dead {
			continue
		}
		if len(s.live) != len(s.copy) {
			c.bad = fmt.Sprintf("result of %s changed length", s.in)
			return
		}
		for i := range s.live {
			if !bytes.Equal(s.live[i], s.copy[i]) {
				c.bad = fmt.Sprintf("result of %s changed after it was returned: element %d was %v, is now %v", s.in, i, net.IP(s.copy[i]), s.live[i])
				return
			}
		}
	}
}

func apply(ns *nbtns.NetBIOSNameServer, c *client, in In, scribble bool) Out {
	switch in.Kind {
	case OpRegister:
		t := nbtns.Unique
		if in.Group {
			t = nbtns.Group
		}
		return Out{OK: ns.RegisterName(names[in.Name], t, addrOf(in.Addr, in.Form), time.Duration(in.TTL)) == nil}
	case OpQuery:
		owners, t, err := ns.QueryName(names[in.Name])
		if err != nil {
			return Out{}
		}
		o := Out{OK: true, Group: t == nbtns.Group, Owners: []int{}}
		s := &snapshot{live: owners, in: in}
		for _, ip := range owners {
			o.Owners = append(o.Owners, addrIndex(ip))
			s.copy = append(s.copy, append([]byte(nil), ip...))
		}
		if scribble {
			// "a slice of its own": the caller may do what it likes with the result
			for i := range owners {
				owners[i] = net.IP{192, 0, 2, 99}
			}
			s.dead = true
			rt.Probe(PScribbled)
		}
		s.at = rt.Seq()
		c.snaps = append(c.snaps, s)
		return o
	case OpRelease:
		return Out{OK: ns.ReleaseName(names[in.Name], addrOf(in.Addr, in.Form)) == nil}
	case OpRefresh:
		return Out{OK: ns.RefreshName(names[in.Name], addrOf(in.Addr, in.Form)) == nil}
	case OpMark:
		return Out{OK: ns.MarkNameConflict(names[in.Name]) == nil}
	case OpClean:
		ns.CleanExpiredNames()
		return Out{OK: true}
	case OpJump:
		rt.JumpClock(in.TTL)
		return Out{OK: true}
	}
	panic("bad op")
}

// genOp always draws the same number of choices, whatever it generates, so that the
// minimiser can change or drop one operation without shifting the meaning of the rest.
func genOp(ttl [3]int64, mix int, perOpTTL bool) In {
	kd, nm, gr, ad, fm, tt := hx.G(9), hx.G(3), hx.G(2), hx.G(3), hx.G(2), hx.G(len(ttlChoices))
	var k OpKind
	switch mix {
	case 0: // registration heavy
		k = [...]OpKind{OpRegister, OpQuery, OpRegister, OpRegister, OpQuery, OpRelease, OpRefresh, OpMark, OpClean}[kd]
	case 5: // time heavy: one name, its TTL, refreshes, sweeps and clock jumps issued by the clients themselves
		k = [...]OpKind{OpRegister, OpQuery, OpRefresh, OpJump, OpClean, OpRelease, OpRegister, OpQuery, OpClean}[kd]
	case 6: // operations on names that are past their TTL but not yet swept, racing with the sweep
		k = [...]OpKind{OpClean, OpRelease, OpRegister, OpQuery, OpRefresh, OpClean, OpRegister, OpRelease, OpQuery}[kd]
	case 1, 3, 4: // churn
		k = [...]OpKind{OpRegister, OpQuery, OpRelease, OpRelease, OpQuery, OpRegister, OpRefresh, OpRegister, OpRelease}[kd]
	default:
		k = [...]OpKind{OpRegister, OpQuery, OpRelease, OpRefresh, OpMark, OpClean, OpRegister, OpQuery, OpRelease}[kd]
	}
	in := In{Kind: k}
	if k == OpClean {
		return in
	}
	if k == OpJump {
		in.TTL = jumpChoices[[...]int{0, 1, 2, 4}[(nm+ad+fm)%4]] // 1 s, 31 s, 61 s or 0.4 s
		return in
	}
	switch mix {
	case 5:
		nm, ad = nm%2, ad%2
	case 3: // hot key: everything on one name, two addresses
		nm, ad = 0, ad%2
	case 4: // hot group: group registrations / releases of two names dominate
		nm = nm % 2
		if k == OpRegister {
			gr = 1
		}
	}
	in.Name = nm
	if k == OpRegister {
		in.Group = gr == 1
		in.TTL = ttl[in.Name]
		if perOpTTL {
			in.TTL = ttlChoices[tt]
		}
	}
	if k == OpRegister || k == OpRelease || k == OpRefresh {
		in.Addr = ad
		in.Form = fm
	}
	return in
}

// Run executes one simulated run.
func Run(seed uint64, index int64, o hx.Opts) *hx.Result {
	if o.Scenario == "seqenum" {
		return runSeqEnum(seed, index, o)
	}
	if o.Scenario == "bulkenum" {
		return runBulkEnum(seed, index, o)
	}
	if o.Scenario == "ttlenum" {
		o.Param["ttl"] = 1
		return runSeqEnum(seed, index, o)
	}
	if o.Scenario == "pairenum" {
		return runPairEnum(seed, index, o)
	}
	res := &hx.Result{Property: "C17", Index: index, Seed: seed, Extra: map[string]int64{}}
	en := [rt.NumKinds]bool{}
	en[rt.KGap], en[rt.KSched] = true, true
	cfg := rt.Config{Seed: seed, Replay: o.Replay, Verbose: o.Verbose, NPoints: o.NPoints, Bias: hx.Swarm(seed, en), MaxSteps: 4_000_000}
	hx.PCTShare = 6 // the table's windows are a few statements wide: mostly random preemption, some priority runs
	cfg.PCT = hx.SwarmPCT(seed)
	w := rt.NewWorld(cfg)
	w.NoSkip = true

	var clients []*client
	var preludeLog []opRec
	var clock *client
	var ns *nbtns.NetBIOSNameServer
	startNow := int64(1) // the clock is odd, TTLs are even: no comparison sits on now == expiry by accident

	v := w.Run(func() {
		rt.JumpClock(startNow)
		// ---- generate the workload (all from the choice stream)
		secured := hx.G(2) == 1
		var ttl [3]int64
		for i := range ttl {
			ttl[i] = ttlChoices[1+hx.G(4)] // 20 s, 60 s, 24 h or 300 ms
		}
		if z := hx.G(24); z < 3 {
			ttl[z] = 0
		}
		mix := [...]int{0, 1, 2, 3, 4, 5, 6, 6, 3}[hx.G(9)]
		var prelude []In
		{
			// drawn always (fixed width), used by mix 6: every name registered, then the clock jumps past every TTL
			for n := 0; n < 3; n++ {
				prelude = append(prelude, In{Kind: OpRegister, Name: n, Group: hx.G(2) == 1, Addr: hx.G(3), Form: hx.G(2), TTL: ttlChoices[1+n%2]})
			}
			prelude = append(prelude, In{Kind: OpJump, TTL: jumpChoices[2]})
		}
		perOpTTL := hx.G(2) == 0 // TTL chosen per registration instead of per name
		if mix == 6 {
			perOpTTL = false
			for n := range ttl {
				ttl[n] = ttlChoices[1+n%2]
			}
		}
		mirror := hx.G(4) == 0 // every client runs the same operation list (maximal contention on identical operations)
		// fixed-width generation: all candidate operations first, the counts afterwards
		const maxClients, maxOps, maxJumps = 4, 12, 4
		var pool [maxClients][maxOps]In
		for c := 0; c < maxClients; c++ {
			for i := 0; i < maxOps; i++ {
				pool[c][i] = genOp(ttl, mix, perOpTTL)
			}
		}
		var jumps [maxJumps]int64
		for i := range jumps {
			jumps[i] = jumpChoices[hx.G(len(jumpChoices))]
		}
		nClients := 1 + hx.G(maxClients)
		for c := 0; c < maxClients; c++ {
			lim := 6
			if nClients == 1 {
				lim = maxOps
			}
			n := 1 + hx.G(lim)
			if c < nClients {
				src := c
				if mirror {
					src = 0
				}
				clients = append(clients, &client{id: c, ops: append([]In(nil), pool[src][:n]...)})
			}
		}
		nJumps := hx.G(maxJumps + 1)
		clock = &client{id: nClients}
		for i := 0; i < nJumps; i++ {
			clock.ops = append(clock.ops, In{Kind: OpJump, TTL: jumps[i]})
		}
		scribbleRun := hx.G(3) == 0
		addrMode := hx.G(4)
		v6Addrs = addrMode == 0
		tailTwin = addrMode == 1
		if v6Addrs {
			rt.Probe(PV6Owners)
		}
		if tailTwin {
			rt.Probe(PTailTwin)
		}
		if o.Scenario != "" {
			res.Scenario = o.Scenario
		} else {
			res.Scenario = fmt.Sprintf("random/%dc", nClients)
		}

		ns = nbtns.NewNetBIOSNameServer(secured)
		if mix == 6 {
			pre := &client{id: 9}
			for _, in := range prelude {
				call := rt.Seq()
				out := apply(ns, pre, in, false)
				ret := rt.Seq()
				pre.log = append(pre.log, opRec{Client: pre.id, In: in, Out: out, Call: call, Ret: ret})
			}
			preludeLog = pre.log
		}
		var tasks []*rt.Task
		for _, cl := range clients {
			cl := cl
			tasks = append(tasks, rt.GoHarness(fmt.Sprintf("client%d", cl.id), "", func() {
				for _, in := range cl.ops {
					rt.Yield()
					scr := false
					if scribbleRun && in.Kind == OpQuery {
						scr = hx.G(2) == 1
					}
					call := rt.Seq()
					out := apply(ns, cl, in, scr)
					ret := rt.Seq()
					cl.log = append(cl.log, opRec{Client: cl.id, In: in, Out: out, Call: call, Ret: ret})
					cl.checkSnaps()
					if cl.bad != "" {
						return
					}
				}
			}))
		}
		if len(clock.ops) > 0 {
			tasks = append(tasks, rt.GoHarness("clock", "", func() {
				for _, in := range clock.ops {
					rt.Yield()
					call := rt.Seq()
					rt.JumpClock(in.TTL)
					ret := rt.Seq()
					clock.log = append(clock.log, opRec{Client: clock.id, In: in, Out: Out{OK: true}, Call: call, Ret: ret})
				}
			}))
		}
		for _, t := range tasks {
			rt.Join(t, -1)
		}
		for _, cl := range clients {
			cl.checkSnaps()
		}
	})
	res.SimNs = w.SimNow()

	// ---- oracles over the recorded history
	var hist []opRec
	hist = append(hist, preludeLog...)
	for _, cl := range clients {
		hist = append(hist, cl.log...)
	}
	if clock != nil {
		hist = append(hist, clock.log...)
	}
	sort.Slice(hist, func(i, j int) bool { return hist[i].Call < hist[j].Call })
	var sample []string
	for _, h := range hist {
		sample = append(sample, fmt.Sprintf("c%d [%d,%d] %s -> %s", h.Client, h.Call, h.Ret, h.In, h.Out))
	}
	res.Sample = sample

	overlap := false
	for i := range hist {
		for j := i + 1; j < len(hist); j++ {
			a, b := hist[i], hist[j]
			if a.Client != b.Client && a.In.Kind != OpJump && b.In.Kind != OpJump && a.Call < b.Ret && b.Call < a.Ret {
				overlap = true
			}
		}
	}
	if overlap {
		w.Stats.Probes[POverlap]++
	}
	if w.Stats.Preemptions > 0 {
		w.Stats.Probes[PPreemptInCritical]++
	}
	for _, cl := range clients {
		for _, sn := range cl.snaps {
			if sn.dead {
				continue
			}
			for _, h := range hist {
				if h.Call > sn.at && h.Out.OK && h.In.Name == sn.in.Name && (h.In.Kind == OpRegister || h.In.Kind == OpRelease) {
					w.Stats.Probes[PSnapshotOutlivedMutation]++
					break
				}
			}
		}
	}
	expBefore := atomic.LoadInt64(&ExpiredMet)
	res.NonTrivial = overlap || (clock != nil && len(clock.log) > 0) || len(hist) >= 3

	if v == nil {
		for _, cl := range clients {
			if cl.bad != "" {
				res.Violation = &hx.Violation{Class: "result_mutated", Key: "query_result", Msg: cl.bad}
				break
			}
		}
	}
	if v == nil && res.Violation == nil {
		seen := map[uint64]struct{}{}
		verdict, culprit := checkLinearizable(hist, startNow, seen)
		for k := range seen {
			res.States = append(res.States, k)
		}
		if atomic.LoadInt64(&ExpiredMet) > expBefore {
			w.Stats.Probes[PExpiredSeen]++
		}
		switch verdict {
		case porcupine.Illegal:
			res.Violation = &hx.Violation{Class: "nonlinearizable", Key: culprit,
				Msg: "history is not linearizable w.r.t. the name-table model; first operation that cannot be explained: " + culprit + "\n" + joinLines(sample)}
		case porcupine.Unknown:
			res.Inconcl = "porcupine timed out"
		}
	}
	hx.Finish(res, w, v, false)
	return res
}

func joinLines(s []string) string {
	var b bytes.Buffer
	for _, l := range s {
		b.WriteString("  " + l + "\n")
	}
	return b.String()
}

func toOps(hist []opRec, clipAfter uint64) []porcupine.Operation {
	var ops []porcupine.Operation
	for _, h := range hist {
		ret := int64(h.Ret)
		out := h.Out
		if clipAfter != 0 && h.Ret > clipAfter {
			// still pending at the end of the prefix: it may or may not have taken effect, with any result
			ret = int64(clipAfter) + 1_000_000
			out = Out{Wild: true}
		}
		in := h.In
		if in.Kind != OpJump {
			k := 0
			for _, j := range hist {
				if j.In.Kind == OpJump && j.Call < h.Ret && h.Call < j.Ret && k < len(in.Slack) {
					in.Slack[k] = j.In.TTL
					k++
				}
			}
		}
		ops = append(ops, porcupine.Operation{ClientId: h.Client, Input: in, Output: out, Call: int64(h.Call), Return: ret})
	}
	return ops
}

// checkLinearizable returns the verdict and, for an illegal history, the operation at which the
// shortest non-linearizable prefix (by return order; operations still pending there may have any result) ends.
func checkLinearizable(hist []opRec, startNow int64, seen map[uint64]struct{}) (porcupine.CheckResult, string) {
	if len(hist) == 0 {
		return porcupine.Ok, ""
	}
	model := PorcupineModel(startNow, seen)
	r := porcupine.CheckOperationsTimeout(model, toOps(hist, 0), 30*time.Second)
	if r != porcupine.Illegal {
		return r, ""
	}
	byRet := append([]opRec(nil), hist...)
	sort.Slice(byRet, func(i, j int) bool { return byRet[i].Ret < byRet[j].Ret })
	m2 := PorcupineModel(startNow, nil)
	for k := 0; k < len(byRet); k++ {
		cut := byRet[k].Ret
		var sub []opRec
		for _, h := range hist {
			if h.Call < cut {
				sub = append(sub, h)
			}
		}
		if porcupine.CheckOperationsTimeout(m2, toOps(sub, cut), 30*time.Second) == porcupine.Illegal {
			return porcupine.Illegal, byRet[k].In.Kind.String() + "->" + outClass(byRet[k].Out)
		}
	}
	return porcupine.Illegal, "history"
}

func outClass(o Out) string {
	if !o.OK {
		return "err"
	}
	return "ok"
}
