// Package context is the simulated stand-in for "context" in rewritten SUT code: the Context interface and
// the cancellation machinery are the real ones; deadlines and timeouts fire on the simulated clock, and every
// cancellation tells the scheduler that a Done channel changed state.
package context

import (
	"context"
	"time"

	"verif.local/sim/rt"
	simtime "verif.local/sim/time"
)

type (
	Context         = context.Context
	CancelFunc      = context.CancelFunc
	CancelCauseFunc = context.CancelCauseFunc
)

var (
	Canceled         = context.Canceled
	DeadlineExceeded = context.DeadlineExceeded
)

func Background() Context                              { return context.Background() }
func TODO() Context                                    { return context.TODO() }
func WithValue(p Context, k, v any) Context            { return context.WithValue(p, k, v) }
func Cause(c Context) error                            { return context.Cause(c) }
func WithoutCancel(p Context) Context                  { return context.WithoutCancel(p) }
func AfterFunc(c Context, f func()) (stop func() bool) { return context.AfterFunc(c, f) }

type kicker struct{ cancel context.CancelFunc }

func (k kicker) call() {
	k.cancel()
	if rt.W != nil {
		rt.Kick()
	}
}

func WithCancel(parent Context) (Context, CancelFunc) {
	c, cancel := context.WithCancel(parent)
	return c, kicker{cancel}.call
}

type causeKicker struct{ cancel context.CancelCauseFunc }

func (k causeKicker) call(err error) {
	k.cancel(err)
	if rt.W != nil {
		rt.Kick()
	}
}

func WithCancelCause(parent Context) (Context, CancelCauseFunc) {
	c, cancel := context.WithCancelCause(parent)
	return c, causeKicker{cancel}.call
}

// deadlineCtx reports the simulated deadline and DeadlineExceeded, on top of a real cancel context.
type deadlineCtx struct {
	Context
	deadline time.Time
	cancel   context.CancelCauseFunc
}

func (d *deadlineCtx) Deadline() (time.Time, bool) { return d.deadline, true }

func (d *deadlineCtx) Err() error {
	if err := d.Context.Err(); err != nil {
		if context.Cause(d.Context) == context.DeadlineExceeded {
			return context.DeadlineExceeded
		}
		return err
	}
	return nil
}

func (d *deadlineCtx) expire() {
	d.cancel(context.DeadlineExceeded)
	if rt.W != nil {
		rt.Kick()
	}
}

func (d *deadlineCtx) stop() {
	d.cancel(context.Canceled)
	if rt.W != nil {
		rt.Kick()
	}
}

func WithDeadline(parent Context, t time.Time) (Context, CancelFunc) {
	c, cancel := context.WithCancelCause(parent)
	d := &deadlineCtx{Context: c, deadline: t, cancel: cancel}
	if pd, ok := parent.Deadline(); ok && pd.Before(t) {
		d.deadline = pd
	}
	wait := simtime.Until(d.deadline)
	timer := simtime.AfterFunc(wait, d.expire)
	return d, stopper{d, timer}.call
}

type stopper struct {
	d *deadlineCtx
	t *simtime.Timer
}

func (s stopper) call() {
	s.t.Stop()
	s.d.stop()
}

func WithTimeout(parent Context, d time.Duration) (Context, CancelFunc) {
	return WithDeadline(parent, simtime.Now().Add(d))
}

func WithDeadlineCause(parent Context, t time.Time, _ error) (Context, CancelFunc) {
	return WithDeadline(parent, t)
}

func WithTimeoutCause(parent Context, d time.Duration, _ error) (Context, CancelFunc) {
	return WithTimeout(parent, d)
}
