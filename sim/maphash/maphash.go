// Package maphash is the simulated stand-in for "hash/maphash": same API, but seeds are deterministic
// (the real package draws a per-process random seed, which would make runs differ between processes).
package maphash

import (
	"fmt"
	"hash/fnv"

	"verif.local/sim/rt"
)

type Seed struct{ s uint64 }

// MakeSeed returns a new seed; seeds are distinct within a run and the same in every execution of that run.
func MakeSeed() Seed {
	return Seed{s: 0x9E3779B97F4A7C15 * rt.NextSerial()}
}

type Hash struct {
	seed Seed
	set  bool
	buf  []byte
}

func (h *Hash) init() {
	if !h.set {
		h.seed, h.set = MakeSeed(), true
	}
}
func (h *Hash) SetSeed(s Seed) { h.seed, h.set, h.buf = s, true, h.buf[:0] }
func (h *Hash) Seed() Seed     { h.init(); return h.seed }
func (h *Hash) Reset()         { h.buf = h.buf[:0] }
func (h *Hash) Write(b []byte) (int, error) {
	h.init()
	h.buf = append(h.buf, b...)
	return len(b), nil
}
func (h *Hash) WriteString(s string) (int, error) {
	h.init()
	h.buf = append(h.buf, s...)
	return len(s), nil
}
func (h *Hash) WriteByte(b byte) error { h.init(); h.buf = append(h.buf, b); return nil }
func (h *Hash) Sum64() uint64          { h.init(); return sum(h.seed, h.buf) }
func (h *Hash) Sum(b []byte) []byte {
	x := h.Sum64()
	return append(b, byte(x>>56), byte(x>>48), byte(x>>40), byte(x>>32), byte(x>>24), byte(x>>16), byte(x>>8), byte(x))
}
func (h *Hash) Size() int      { return 8 }
func (h *Hash) BlockSize() int { return 128 }

func sum(s Seed, b []byte) uint64 {
	f := fnv.New64a()
	var sb [8]byte
	for i := range sb {
		sb[i] = byte(s.s >> (8 * uint(i)))
	}
	f.Write(sb[:])
	f.Write(b)
	x := f.Sum64()
	x ^= x >> 29
	x *= 0xBF58476D1CE4E5B9
	x ^= x >> 32
	return x
}

func Bytes(s Seed, b []byte) uint64    { return sum(s, b) }
func String(s Seed, str string) uint64 { return sum(s, []byte(str)) }

func Comparable[T comparable](s Seed, v T) uint64 { return sum(s, []byte(fmt.Sprintf("%v", v))) }

func WriteComparable[T comparable](h *Hash, v T) { h.WriteString(fmt.Sprintf("%v", v)) }
