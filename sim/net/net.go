// Package net is the simulated stand-in for "net" in rewritten SUT code.
// Pure names are aliases of the real package; sockets are simulated: UDP
// datagrams (unicast + multicast) with drop / duplicate / delay (hence
// reorder), TCP-like byte streams with segmentation, coalescing, delay,
// bounded windows, FIN, RST and injected cuts at a byte offset. All
// deadlines read the simulated clock.
//
// Same rules as sim/rt: every function //go:norace, no closures, no maps.
package net

import (
	"context"
	"errors"
	"io"
	"net"
	"os"
	"strconv"
	"syscall"
	"time"
	"unsafe"

	"verif.local/sim/rt"
	simtime "verif.local/sim/time"
)

type (
	IP                  = net.IP
	IPMask              = net.IPMask
	IPNet               = net.IPNet
	IPAddr              = net.IPAddr
	UDPAddr             = net.UDPAddr
	TCPAddr             = net.TCPAddr
	UnixAddr            = net.UnixAddr
	Addr                = net.Addr
	Error               = net.Error
	OpError             = net.OpError
	AddrError           = net.AddrError
	DNSError            = net.DNSError
	ParseError          = net.ParseError
	InvalidAddrError    = net.InvalidAddrError
	UnknownNetworkError = net.UnknownNetworkError
	Conn                = net.Conn
	PacketConn          = net.PacketConn
	Listener            = net.Listener
	Interface           = net.Interface
	HardwareAddr        = net.HardwareAddr
	Flags               = net.Flags
	Buffers             = net.Buffers
)

const (
	IPv4len = net.IPv4len
	IPv6len = net.IPv6len
)

var (
	ErrClosed                  = net.ErrClosed
	ErrWriteToConnected        = net.ErrWriteToConnected
	IPv4bcast                  = net.IPv4bcast
	IPv4allsys                 = net.IPv4allsys
	IPv4allrouter              = net.IPv4allrouter
	IPv4zero                   = net.IPv4zero
	IPv6zero                   = net.IPv6zero
	IPv6unspecified            = net.IPv6unspecified
	IPv6loopback               = net.IPv6loopback
	IPv6linklocalallnodes      = net.IPv6linklocalallnodes
	IPv6linklocalallrouters    = net.IPv6linklocalallrouters
	IPv6interfacelocalallnodes = net.IPv6interfacelocalallnodes
)

func ParseIP(s string) IP                                { return net.ParseIP(s) }
func IPv4(a, b, c, d byte) IP                            { return net.IPv4(a, b, c, d) }
func IPv4Mask(a, b, c, d byte) IPMask                    { return net.IPv4Mask(a, b, c, d) }
func CIDRMask(ones, bits int) IPMask                     { return net.CIDRMask(ones, bits) }
func ParseCIDR(s string) (IP, *IPNet, error)             { return net.ParseCIDR(s) }
func ParseMAC(s string) (HardwareAddr, error)            { return net.ParseMAC(s) }
func JoinHostPort(host, port string) string              { return net.JoinHostPort(host, port) }
func SplitHostPort(hp string) (string, string, error)    { return net.SplitHostPort(hp) }
func ResolveUDPAddr(network, a string) (*UDPAddr, error) { return net.ResolveUDPAddr(network, a) }
func ResolveTCPAddr(network, a string) (*TCPAddr, error) { return net.ResolveTCPAddr(network, a) }
func ResolveIPAddr(network, a string) (*IPAddr, error)   { return net.ResolveIPAddr(network, a) }
func LookupPort(network, service string) (int, error)    { return net.LookupPort(network, service) }
func Interfaces() ([]Interface, error)                   { return nil, nil }
func InterfaceByName(string) (*Interface, error)         { return nil, errors.New("sim/net: no interfaces") }
func InterfaceAddrs() ([]Addr, error)                    { return nil, nil }

// DefaultHost is the host address of tasks that were given none.
const DefaultHost = "10.0.0.1"

// ---------------------------------------------------------------- state

type state struct {
	udp       *UDPConn
	lst       *listener
	xw        *xwait
	nextPort  int
	connSeq   int
	Window    int // default stream window
	MaxQueue  int // per UDP socket queue limit
	delays    [6]int64
	sockets   int
	openSocks int
	lastX1    *StreamConn
	lastX2    *StreamConn
	xSealed   bool
}

//go:norace
func st() *state {
	w := rt.W
	if w == nil {
		panic("sim/net: socket call outside a simulation")
	}
	if w.Net == nil {
		w.Net = &state{nextPort: 49152, Window: 1 << 20, MaxQueue: 128,
			delays: [6]int64{0, 1e6, 5e6, 50e6, 500e6, 2500e6}}
	}
	return w.Net.(*state)
}

//go:norace
func curHost() string {
	t := rt.Cur()
	if t == nil || t.Host == "" {
		return DefaultHost
	}
	return t.Host
}

//go:norace
func ipKey(ip IP) string {
	if len(ip) == 0 {
		return ""
	}
	if v4 := ip.To4(); v4 != nil {
		return v4.String()
	}
	return ip.String()
}

//go:norace
func isWild(ip IP) bool { return len(ip) == 0 || ip.IsUnspecified() }

//go:norace
func cloneIP(ip IP) IP {
	if ip == nil {
		return nil
	}
	o := make(IP, len(ip))
	for i := 0; i < len(ip); i++ {
		o[i] = ip[i]
	}
	return o
}

//go:norace
func opErr(op, network string, err error) error {
	return &net.OpError{Op: op, Net: network, Err: err}
}

//go:norace
func timeoutErr(op, network string) error { return opErr(op, network, os.ErrDeadlineExceeded) }

//go:norace
func base(p []byte) unsafe.Pointer {
	if len(p) == 0 {
		return nil
	}
	return unsafe.Pointer(&p[0])
}

// clone copies SUT memory into simulator memory (the read of p is reported to the race detector).
//
//go:norace
func clone(p []byte) []byte {
	rt.RaceReadRange(base(p), len(p))
	o := make([]byte, len(p))
	for i := 0; i < len(p); i++ {
		o[i] = p[i]
	}
	return o
}

// fill copies simulator memory into SUT memory (the write of dst is reported to the race detector).
//
//go:norace
func fill(dst, src []byte) int {
	n := len(src)
	if len(dst) < n {
		n = len(dst)
	}
	rt.RaceWriteRange(base(dst), n)
	for i := 0; i < n; i++ {
		dst[i] = src[i]
	}
	return n
}

// ---------------------------------------------------------------- UDP

type dgram struct {
	data     []byte
	from     UDPAddr
	fromHost string
	to       UDPAddr
	tok      byte
	id       int
}

type qent struct {
	d    *dgram
	next *qent
}

type UDPConn struct {
	host    string // bound host ("" = any on this host)
	onHost  string // host of the creating task
	port    int
	group   string // joined multicast group ("" none)
	remote  *UDPAddr
	closed  bool
	qh, qt  *qent
	qlen    int
	rdl     int64
	wdl     int64
	network string
	next    *UDPConn
	blocked int // tasks blocked in a read
}

type udpRead struct{ c *UDPConn }

//go:norace
func (r udpRead) Ready(*rt.Task) bool {
	c := r.c
	return c.closed || c.qh != nil || (c.rdl >= 0 && rt.Now() >= c.rdl)
}

//go:norace
func (s *state) allocPort() int {
	p := s.nextPort
	s.nextPort++
	return p
}

//go:norace
func (s *state) udpInUse(host string, port int) bool {
	for c := s.udp; c != nil; c = c.next {
		if !c.closed && c.port == port && c.onHost == host && c.group == "" {
			return true
		}
	}
	return false
}

//go:norace
func newUDP(network string, laddr *UDPAddr, group string) (*UDPConn, error) {
	s := st()
	c := &UDPConn{network: network, onHost: curHost(), rdl: -1, wdl: -1, group: group}
	if laddr != nil {
		c.port = laddr.Port
		if !isWild(laddr.IP) && !laddr.IP.IsMulticast() {
			c.host = ipKey(laddr.IP)
		}
	}
	if c.port == 0 {
		c.port = s.allocPort()
	} else if group == "" && s.udpInUse(c.onHost, c.port) {
		return nil, opErr("listen", network, os.NewSyscallError("bind", syscall.EADDRINUSE))
	}
	c.next = s.udp
	s.udp = c
	s.sockets++
	s.openSocks++
	rt.Seq()
	if rt.W.Verbose() {
		rt.Tracef("udp socket %s:%d group=%q", c.onHost, c.port, group)
	}
	return c, nil
}

//go:norace
func ListenUDP(network string, laddr *UDPAddr) (*UDPConn, error) {
	if rt.Aborting() {
		return nil, opErr("listen", network, ErrClosed)
	}
	switch network {
	case "udp", "udp4", "udp6":
	default:
		return nil, opErr("listen", network, net.UnknownNetworkError(network))
	}
	return newUDP(network, laddr, "")
}

//go:norace
func ListenMulticastUDP(network string, ifi *Interface, gaddr *UDPAddr) (*UDPConn, error) {
	if rt.Aborting() {
		return nil, opErr("listen", network, ErrClosed)
	}
	switch network {
	case "udp", "udp4", "udp6":
	default:
		return nil, opErr("listen", network, net.UnknownNetworkError(network))
	}
	if gaddr == nil || gaddr.IP == nil {
		return nil, opErr("listen", network, errors.New("missing address"))
	}
	if !gaddr.IP.IsMulticast() {
		return nil, opErr("listen", network, errors.New("not a multicast address"))
	}
	return newUDP(network, &UDPAddr{Port: gaddr.Port}, ipKey(gaddr.IP))
}

//go:norace
func DialUDP(network string, laddr, raddr *UDPAddr) (*UDPConn, error) {
	if rt.Aborting() {
		return nil, opErr("dial", network, ErrClosed)
	}
	switch network {
	case "udp", "udp4", "udp6":
	default:
		return nil, opErr("dial", network, net.UnknownNetworkError(network))
	}
	if raddr == nil {
		return nil, opErr("dial", network, errors.New("missing address"))
	}
	c, err := newUDP(network, laddr, "")
	if err != nil {
		return nil, err
	}
	c.remote = &UDPAddr{IP: cloneIP(raddr.IP), Port: raddr.Port, Zone: raddr.Zone}
	return c, nil
}

//go:norace
func (c *UDPConn) LocalAddr() Addr {
	h := c.host
	if h == "" {
		h = c.onHost
	}
	return &UDPAddr{IP: net.ParseIP(h), Port: c.port}
}

//go:norace
func (c *UDPConn) RemoteAddr() Addr {
	if c.remote == nil {
		return nil
	}
	return c.remote
}

//go:norace
func (c *UDPConn) Close() error {
	if rt.Aborting() {
		return nil
	}
	if c.closed {
		return opErr("close", c.network, ErrClosed)
	}
	c.closed = true
	st().openSocks--
	if c.blocked > 0 {
		rt.Probe(rt.PCloseWhileBlocked)
	}
	rt.Seq()
	if rt.W.Verbose() {
		rt.Tracef("udp close %s:%d", c.onHost, c.port)
	}
	return nil
}

//go:norace
func (c *UDPConn) SetDeadline(t time.Time) error {
	if err := c.SetReadDeadline(t); err != nil {
		return err
	}
	return c.SetWriteDeadline(t)
}

//go:norace
func (c *UDPConn) SetReadDeadline(t time.Time) error {
	if rt.Aborting() {
		return nil
	}
	if c.closed {
		return opErr("set", c.network, ErrClosed)
	}
	c.rdl = simtime.ToSim(t)
	if c.rdl >= 0 {
		rt.W.At(c.rdl, nopEv{})
	}
	return nil
}

//go:norace
func (c *UDPConn) SetWriteDeadline(t time.Time) error {
	if rt.Aborting() {
		return nil
	}
	if c.closed {
		return opErr("set", c.network, ErrClosed)
	}
	c.wdl = simtime.ToSim(t)
	return nil
}

//go:norace
func (c *UDPConn) SetReadBuffer(int) error { return nil }

//go:norace
func (c *UDPConn) SetWriteBuffer(int) error { return nil }

type nopEv struct{}

//go:norace
func (nopEv) Fire() {}

//go:norace
func (c *UDPConn) recv(b []byte) (int, *UDPAddr, error) {
	if rt.Aborting() {
		rt.Block(udpRead{c}, 0, "udp read", -1) // unwinds
	}
	for {
		if c.closed {
			return 0, nil, opErr("read", c.network, ErrClosed)
		}
		if c.qh != nil {
			e := c.qh
			c.qh = e.next
			if c.qh == nil {
				c.qt = nil
			}
			c.qlen--
			d := e.d
			if c.remote != nil && !(d.from.Port == c.remote.Port && d.from.IP.Equal(c.remote.IP)) {
				continue // connected socket: other sources are filtered
			}
			rt.RaceAcquire(unsafe.Pointer(&d.tok))
			n := fill(b, d.data)
			if n < len(d.data) {
				rt.Probe(rt.PDgramTruncated)
			}
			rt.Seq()
			rt.Mix(21, uint64(d.id))
			if rt.W.Verbose() {
				rt.Tracef("udp %s:%d <- dgram#%d from %s:%d (%d bytes)", c.onHost, c.port, d.id, ipKey(d.from.IP), d.from.Port, n)
			}
			return n, &UDPAddr{IP: cloneIP(d.from.IP), Port: d.from.Port}, nil
		}
		if c.rdl >= 0 && rt.Now() >= c.rdl {
			rt.Probe(rt.PDeadlineExpired)
			return 0, nil, timeoutErr("read", c.network)
		}
		c.blocked++
		rt.Block(udpRead{c}, 0, "UDPConn.Read", c.rdl)
		c.blocked--
	}
}

//go:norace
func (c *UDPConn) ReadFromUDP(b []byte) (int, *UDPAddr, error) { return c.recv(b) }

//go:norace
func (c *UDPConn) ReadFrom(b []byte) (int, Addr, error) {
	n, a, err := c.recv(b)
	if a == nil {
		return n, nil, err
	}
	return n, a, err
}

//go:norace
func (c *UDPConn) Read(b []byte) (int, error) {
	n, _, err := c.recv(b)
	return n, err
}

//go:norace
func (c *UDPConn) ReadMsgUDP(b, oob []byte) (n, oobn, flags int, addr *UDPAddr, err error) {
	n, addr, err = c.recv(b)
	return
}

//go:norace
func (c *UDPConn) WriteToUDP(b []byte, addr *UDPAddr) (int, error) {
	if rt.Aborting() {
		return len(b), nil
	}
	if c.closed {
		return 0, opErr("write", c.network, ErrClosed)
	}
	if c.remote != nil {
		return 0, opErr("write", c.network, ErrWriteToConnected)
	}
	if addr == nil {
		return 0, opErr("write", c.network, errors.New("missing address"))
	}
	n, err := c.send(b, addr)
	rt.StallPoint()
	return n, err
}

//go:norace
func (c *UDPConn) WriteTo(b []byte, addr Addr) (int, error) {
	a, ok := addr.(*UDPAddr)
	if !ok {
		return 0, opErr("write", c.network, syscall.EINVAL)
	}
	return c.WriteToUDP(b, a)
}

//go:norace
func (c *UDPConn) WriteMsgUDP(b, oob []byte, addr *UDPAddr) (n, oobn int, err error) {
	n, err = c.WriteToUDP(b, addr)
	return
}

//go:norace
func (c *UDPConn) Write(b []byte) (int, error) {
	if rt.Aborting() {
		return len(b), nil
	}
	if c.closed {
		return 0, opErr("write", c.network, ErrClosed)
	}
	if c.remote == nil {
		return 0, opErr("write", c.network, errors.New("destination address required"))
	}
	n, err := c.send(b, c.remote)
	rt.StallPoint()
	return n, err
}

//go:norace
func (c *UDPConn) send(b []byte, addr *UDPAddr) (int, error) {
	if c.wdl >= 0 && rt.Now() >= c.wdl {
		// like the real poller: a write deadline that has already passed fails the call before anything is sent
		return 0, timeoutErr("write", c.network)
	}
	if len(b) > 65507 {
		return 0, opErr("write", c.network, syscall.EMSGSIZE)
	}
	s := st()
	h := c.host
	if h == "" {
		h = c.onHost
	}
	s.connSeq++
	d := &dgram{data: clone(b), from: UDPAddr{IP: net.ParseIP(h), Port: c.port}, fromHost: c.onHost,
		to: UDPAddr{IP: cloneIP(addr.IP), Port: addr.Port}, id: s.connSeq}
	rt.RaceRelease(unsafe.Pointer(&d.tok))
	rt.Seq()
	if rt.W.Verbose() {
		rt.Tracef("udp %s:%d -> dgram#%d to %s:%d (%d bytes)", h, c.port, d.id, ipKey(addr.IP), addr.Port, len(b))
	}
	if !rt.W.Quiet {
		if rt.Chance(rt.KDrop) {
			rt.Probe(rt.PDgramDropped)
			if rt.W.Verbose() {
				rt.Tracef("FAULT drop dgram#%d", d.id)
			}
			return len(b), nil
		}
		k := rt.Choose(len(s.delays), rt.KDelay)
		if k > 0 {
			rt.Probe(rt.PDgramDelayed)
			if rt.W.Verbose() {
				rt.Tracef("FAULT delay dgram#%d by %dms", d.id, s.delays[k]/1e6)
			}
		}
		rt.After(s.delays[k], &delivery{d})
		if rt.Chance(rt.KDup) {
			rt.Probe(rt.PDgramDup)
			k2 := rt.Choose(len(s.delays), rt.KDelay)
			if rt.W.Verbose() {
				rt.Tracef("FAULT duplicate dgram#%d (+%dms)", d.id, s.delays[k2]/1e6)
			}
			rt.After(s.delays[k2], &delivery{d})
		}
		return len(b), nil
	}
	rt.After(0, &delivery{d})
	return len(b), nil
}

type delivery struct{ d *dgram }

//go:norace
func (dl *delivery) Fire() {
	s := st()
	d := dl.d
	to := ipKey(d.to.IP)
	mc := d.to.IP.IsMulticast()
	if d.to.IP.IsLoopback() || isWild(d.to.IP) {
		to = d.fromHost
	}
	for c := s.udp; c != nil; c = c.next {
		if c.closed || c.port != d.to.Port {
			continue
		}
		if mc {
			if c.group != to {
				continue
			}
		} else {
			if c.onHost != to && c.host != to {
				continue
			}
			if c.host != "" && c.host != to {
				continue
			}
		}
		if c.qlen >= s.MaxQueue {
			rt.Probe(rt.PDgramDropped)
			continue
		}
		e := &qent{d: d}
		if c.qt == nil {
			c.qh = e
		} else {
			c.qt.next = e
		}
		c.qt = e
		c.qlen++
		rt.Mix(22, uint64(d.id))
	}
}

// ---------------------------------------------------------------- streams

type seg struct {
	data []byte
	off  int
	tok  byte
	p    *pipe
	fin  bool
	rst  bool
	next *seg
}

type pipe struct {
	head, tail *seg
	inflight   int
	queued     int
	fin        bool // FIN delivered
	rst        bool // RST delivered
	wclosed    bool // writer end closed (FIN or RST sent)
	aborted    bool // writer aborted the connection: segments still in flight are lost
	rclosed    bool // reader end closed
	rclosedHit int
	lastAt     int64
	window     int
	cutAfter   int // remaining bytes before the injected cut (-1 none)
	cutKind    int
	sent       int
	delivered  int
	consumed   int
}

// Cut kinds for CutAfter.
const (
	CutFIN = 1
	CutRST = 2
)

//go:norace
func (sg *seg) Fire() {
	p := sg.p
	if sg.rst {
		p.rst = true
		p.head, p.tail, p.queued = nil, nil, 0
		rt.Probe(rt.PReset)
		return
	}
	if sg.fin {
		p.fin = true
		rt.Probe(rt.PFin)
		return
	}
	if p.rst || p.rclosed || p.aborted {
		p.inflight -= len(sg.data)
		return
	}
	if p.tail == nil {
		p.head = sg
	} else {
		p.tail.next = sg
	}
	p.tail = sg
	p.inflight -= len(sg.data)
	p.queued += len(sg.data)
	p.delivered += len(sg.data)
}

type StreamConn struct {
	in, out       *pipe
	local, remote *TCPAddr
	rdl, wdl      int64
	closed        bool
	network       string
	id            int
	peer          *StreamConn
	blockedR      int
	forcePlan     int  // -1 = chosen per Write from the choice stream
	writing       bool // a Write is in progress (possibly blocked on a full window)
	linger0       bool // SetLinger(0): Close discards unsent data and resets the connection
}

// TCPConn is the simulated *net.TCPConn.
type TCPConn = StreamConn

type streamRead struct{ c *StreamConn }

//go:norace
func (r streamRead) Ready(*rt.Task) bool {
	c := r.c
	return c.closed || c.in.head != nil || c.in.fin || c.in.rst || (c.rdl >= 0 && rt.Now() >= c.rdl)
}

type streamWrite struct{ c *StreamConn }

//go:norace
func (r streamWrite) Ready(*rt.Task) bool {
	c := r.c
	p := c.out
	return c.closed || p.rst || p.rclosed || p.inflight+p.queued < p.window || (c.wdl >= 0 && rt.Now() >= c.wdl)
}

//go:norace
func newPair(network string, a, b *TCPAddr) (*StreamConn, *StreamConn) {
	s := st()
	p1 := &pipe{window: s.Window, cutAfter: -1}
	p2 := &pipe{window: s.Window, cutAfter: -1}
	s.connSeq++
	c1 := &StreamConn{in: p1, out: p2, local: a, remote: b, rdl: -1, wdl: -1, network: network, id: s.connSeq, forcePlan: -1}
	s.connSeq++
	c2 := &StreamConn{in: p2, out: p1, local: b, remote: a, rdl: -1, wdl: -1, network: network, id: s.connSeq, forcePlan: -1}
	c1.peer, c2.peer = c2, c1
	s.openSocks += 2
	return c1, c2
}

//go:norace
func (c *StreamConn) LocalAddr() Addr { return c.local }

//go:norace
func (c *StreamConn) RemoteAddr() Addr { return c.remote }

//go:norace
func (c *StreamConn) Read(b []byte) (int, error) {
	if rt.Aborting() {
		rt.Block(streamRead{c}, 0, "stream read", -1) // unwinds
	}
	p := c.in
	for {
		if c.closed {
			return 0, opErr("read", c.network, ErrClosed)
		}
		if p.rst {
			return 0, opErr("read", c.network, os.NewSyscallError("read", syscall.ECONNRESET))
		}
		if len(b) == 0 {
			return 0, nil
		}
		if p.head != nil {
			n := 0
			for p.head != nil && n < len(b) {
				sg := p.head
				rt.RaceAcquire(unsafe.Pointer(&sg.tok))
				k := fill(b[n:], sg.data[sg.off:])
				n += k
				sg.off += k
				if sg.off == len(sg.data) {
					p.head = sg.next
					if p.head == nil {
						p.tail = nil
					}
				}
				if n == len(b) || p.head == nil {
					break
				}
				if rt.W.Quiet || !rt.Chance(rt.KCoalesce) {
					break
				}
				rt.Probe(rt.PCoalesced)
			}
			p.queued -= n
			p.consumed += n
			if n < len(b) {
				rt.Probe(rt.PShortRead)
			}
			rt.Seq()
			rt.Mix(23, uint64(n))
			if rt.W.Verbose() {
				rt.Tracef("stream#%d read %d of %d bytes", c.id, n, len(b))
			}
			return n, nil
		}
		if p.fin {
			return 0, io.EOF
		}
		if c.rdl >= 0 && rt.Now() >= c.rdl {
			rt.Probe(rt.PDeadlineExpired)
			return 0, timeoutErr("read", c.network)
		}
		c.blockedR++
		rt.Block(streamRead{c}, 0, "Conn.Read", c.rdl)
		c.blockedR--
	}
}

//go:norace
func (p *pipe) schedule(sg *seg, delay int64) {
	at := rt.Now() + delay
	if at < p.lastAt {
		at = p.lastAt
	}
	p.lastAt = at
	rt.W.At(at, sg).Chain = uintptr(unsafe.Pointer(p))
}

type writeLock struct{ c *StreamConn }

//go:norace
func (w writeLock) Ready(*rt.Task) bool { return !w.c.writing || w.c.closed }

// Write is atomic with respect to other Writes on the same connection, like net.Conn.Write (which holds
// the descriptor's write lock for the whole call, however long it blocks on a full window).
//
//go:norace
func (c *StreamConn) Write(b []byte) (int, error) {
	if rt.Aborting() {
		return len(b), nil
	}
	for c.writing && !c.closed {
		rt.Block(writeLock{c}, 0, "Conn.Write (another Write in progress)", -1)
	}
	c.writing = true
	n, err := c.write(b)
	c.writing = false
	rt.StallPoint()
	return n, err
}

//go:norace
func (c *StreamConn) write(b []byte) (int, error) {
	if rt.Aborting() {
		return len(b), nil
	}
	s := st()
	p := c.out
	total := len(b)
	n := 0
	if c.closed {
		return 0, opErr("write", c.network, ErrClosed)
	}
	if c.wdl >= 0 && rt.Now() >= c.wdl {
		return 0, timeoutErr("write", c.network) // an expired write deadline fails the call before anything is sent
	}
	// segmentation plan for this Write
	plan := 0
	if c.forcePlan >= 0 {
		plan = c.forcePlan
	} else if !rt.W.Quiet && total > 1 {
		plan = rt.Choose(6, rt.KSeg)
		if plan != 0 {
			rt.Probe(rt.PSegmented)
		}
	}
	var cuts [8]int
	ncuts := 0
	if plan == 4 {
		ncuts = 1 + rt.Choose(8, rt.KSeg)
		for i := 0; i < ncuts; i++ {
			cuts[i] = 1 + rt.Choose(total-1, rt.KSeg)
		}
	}
	first := true
	for first || n < total {
		first = false
		if c.closed {
			return n, opErr("write", c.network, ErrClosed)
		}
		if p.rst {
			return n, opErr("write", c.network, os.NewSyscallError("write", syscall.ECONNRESET))
		}
		if p.wclosed {
			return n, opErr("write", c.network, os.NewSyscallError("write", syscall.EPIPE))
		}
		if p.rclosed {
			p.rclosedHit++
			if p.rclosedHit > 1 {
				return n, opErr("write", c.network, os.NewSyscallError("write", syscall.EPIPE))
			}
			return total, nil // first write after the peer closed is swallowed by the kernel
		}
		space := p.window - (p.inflight + p.queued)
		if space <= 0 {
			if c.wdl >= 0 && rt.Now() >= c.wdl {
				return n, timeoutErr("write", c.network)
			}
			rt.Probe(rt.PWindowFull)
			rt.Block(streamWrite{c}, 0, "Conn.Write (window full)", c.wdl)
			first = true
			continue
		}
		k := total - n
		switch plan {
		case 1: // byte by byte (bounded), then the rest
			if n < 64 || c.forcePlan == 1 {
				k = 1
			}
		case 2: // first bytes singly (header split), rest whole
			if n < 5 {
				k = 1
			}
		case 3: // MSS sized
			if k > 1460 {
				k = 1460
			}
		case 4: // chosen cut points
			nx := total
			for i := 0; i < ncuts; i++ {
				if cuts[i] > n && cuts[i] < nx {
					nx = cuts[i]
				}
			}
			k = nx - n
		case 5: // halves
			if k > 1 {
				k = (k + 1) / 2
			}
		}
		if k > space {
			k = space
		}
		if k > total-n {
			k = total - n
		}
		cut := false
		if p.cutAfter >= 0 && k >= p.cutAfter {
			k = p.cutAfter
			cut = true
		}
		if k > 0 {
			sg := &seg{data: clone(b[n : n+k]), p: p}
			rt.RaceRelease(unsafe.Pointer(&sg.tok))
			p.inflight += k
			p.sent += k
			if p.cutAfter >= 0 {
				p.cutAfter -= k
			}
			d := int64(0)
			if !rt.W.Quiet && c.forcePlan < 0 {
				d = s.delays[rt.Choose(4, rt.KDelay)]
			}
			p.schedule(sg, d)
			n += k
		}
		if cut {
			p.cutAfter = -1
			p.wclosed = true
			p.schedule(&seg{p: p, fin: p.cutKind == CutFIN, rst: p.cutKind == CutRST}, 0)
			if rt.W.Verbose() {
				rt.Tracef("FAULT stream#%d cut (kind %d) after %d bytes sent in total", c.id, p.cutKind, p.sent)
			}
			rt.Seq()
			if n == total {
				return total, nil // the kernel took everything; the connection died afterwards
			}
			if rt.Chance(rt.KFault) {
				return total, nil
			}
			return n, opErr("write", c.network, os.NewSyscallError("write", syscall.EPIPE))
		}
		if total == 0 {
			break
		}
	}
	rt.Seq()
	rt.Mix(24, uint64(total))
	if rt.W.Verbose() {
		rt.Tracef("stream#%d wrote %d bytes (plan %d)", c.id, total, plan)
	}
	return total, nil
}

//go:norace
func (c *StreamConn) Close() error {
	if rt.Aborting() {
		return nil
	}
	if c.closed {
		return opErr("close", c.network, ErrClosed)
	}
	if c.linger0 {
		// SO_LINGER with a zero timeout: close() discards whatever has not been delivered yet and sends a RST at once
		c.out.aborted = true
		c.closed = true
		st().openSocks--
		if !c.out.wclosed {
			c.out.wclosed = true
			rt.W.At(rt.Now(), &seg{p: c.out, rst: true})
		}
		c.in.rclosed = true
		rt.Seq()
		if rt.W.Verbose() {
			rt.Tracef("stream#%d close with SO_LINGER 0 (RST, undelivered data discarded)", c.id)
		}
		return nil
	}
	c.closed = true
	st().openSocks--
	if c.blockedR > 0 {
		rt.Probe(rt.PCloseWhileBlocked)
	}
	if !c.out.wclosed {
		c.out.wclosed = true
		c.out.schedule(&seg{p: c.out, fin: true}, 0)
	}
	c.in.rclosed = true
	c.in.head, c.in.tail, c.in.queued = nil, nil, 0
	rt.Seq()
	if rt.W.Verbose() {
		rt.Tracef("stream#%d close", c.id)
	}
	return nil
}

// Abort closes the connection with a reset instead of a FIN.
//
//go:norace
func Abort(cn Conn) {
	c := cn.(*StreamConn)
	if c.closed {
		return
	}
	c.closed = true
	st().openSocks--
	if !c.out.wclosed {
		c.out.wclosed = true
		c.out.schedule(&seg{p: c.out, rst: true}, 0)
	}
	c.in.rclosed = true
	rt.Seq()
	if rt.W.Verbose() {
		rt.Tracef("stream#%d abort (RST)", c.id)
	}
}

// CutAfter makes the connection's outgoing direction die (FIN or RST) after k more bytes were written.
//
//go:norace
func CutAfter(cn Conn, k int, kind int) {
	c := cn.(*StreamConn)
	c.out.cutAfter = k
	c.out.cutKind = kind
}

// CutPeerAfter injects the cut in the direction *towards* cn (i.e. on its peer's writes).
//
//go:norace
func CutPeerAfter(cn Conn, k int, kind int) { CutAfter(cn.(*StreamConn).peer, k, kind) }

// ForceSegmentation fixes the segmentation plan of every Write on cn (0 = whole, 1 = byte by byte, -1 = from the choice stream).
//
//go:norace
func ForceSegmentation(cn Conn, plan int) { cn.(*StreamConn).forcePlan = plan }

// SetWindow bounds the bytes in flight + unread towards cn's peer.
//
//go:norace
func SetWindow(cn Conn, n int) { cn.(*StreamConn).out.window = n }

// Peer returns the other end (harness use).
//
//go:norace
func Peer(cn Conn) Conn { return cn.(*StreamConn).peer }

// Unread reports the bytes delivered to cn and not yet read, and whether FIN/RST arrived.
//
//go:norace
func Unread(cn Conn) (queued int, inflight int, fin, rst bool) {
	p := cn.(*StreamConn).in
	return p.queued, p.inflight, p.fin, p.rst
}

//go:norace
func (c *StreamConn) CloseWrite() error {
	if c.closed {
		return opErr("close", c.network, ErrClosed)
	}
	if !c.out.wclosed {
		c.out.wclosed = true
		c.out.schedule(&seg{p: c.out, fin: true}, 0)
	}
	return nil
}

//go:norace
func (c *StreamConn) CloseRead() error {
	c.in.rclosed = true
	return nil
}

//go:norace
func (c *StreamConn) SetDeadline(t time.Time) error {
	if err := c.SetReadDeadline(t); err != nil {
		return err
	}
	return c.SetWriteDeadline(t)
}

//go:norace
func (c *StreamConn) SetReadDeadline(t time.Time) error {
	if rt.Aborting() {
		return nil
	}
	if c.closed {
		return opErr("set", c.network, ErrClosed)
	}
	c.rdl = simtime.ToSim(t)
	if c.rdl >= 0 {
		rt.W.At(c.rdl, nopEv{})
	}
	return nil
}

//go:norace
func (c *StreamConn) SetWriteDeadline(t time.Time) error {
	if rt.Aborting() {
		return nil
	}
	if c.closed {
		return opErr("set", c.network, ErrClosed)
	}
	c.wdl = simtime.ToSim(t)
	if c.wdl >= 0 {
		rt.W.At(c.wdl, nopEv{})
	}
	return nil
}

//go:norace
func (c *StreamConn) SetNoDelay(bool) error { return nil }

//go:norace
func (c *StreamConn) SetKeepAlive(bool) error { return nil }

//go:norace
func (c *StreamConn) SetKeepAlivePeriod(time.Duration) error { return nil }

//go:norace
func (c *StreamConn) SetLinger(sec int) error {
	c.linger0 = sec == 0
	return nil
}

//go:norace
func (c *StreamConn) SetReadBuffer(int) error { return nil }

//go:norace
func (c *StreamConn) SetWriteBuffer(int) error { return nil }

// ---------------------------------------------------------------- listeners, dial

type backlogEnt struct {
	c    *StreamConn
	next *backlogEnt
}

type listener struct {
	host    string
	port    int
	network string
	closed  bool
	bh, bt  *backlogEnt
	next    *listener
	blocked int
}

// TCPListener is the simulated *net.TCPListener.
type TCPListener = listener

//go:norace
func (l *listener) Ready(*rt.Task) bool { return l.closed || l.bh != nil }

//go:norace
func (l *listener) Accept() (Conn, error) {
	if rt.Aborting() {
		rt.Block(l, 0, "accept", -1) // unwinds
	}
	for {
		if l.closed {
			return nil, opErr("accept", l.network, ErrClosed)
		}
		if l.bh != nil {
			e := l.bh
			l.bh = e.next
			if l.bh == nil {
				l.bt = nil
			}
			rt.Seq()
			if rt.W.Verbose() {
				rt.Tracef("accept stream#%d from %s", e.c.id, e.c.remote.String())
			}
			return e.c, nil
		}
		l.blocked++
		rt.Block(l, 0, "Listener.Accept", -1)
		l.blocked--
	}
}

//go:norace
func (l *listener) AcceptTCP() (*TCPConn, error) {
	c, err := l.Accept()
	if err != nil {
		return nil, err
	}
	return c.(*StreamConn), nil
}

//go:norace
func (l *listener) Close() error {
	if rt.Aborting() {
		return nil
	}
	if l.closed {
		return opErr("close", l.network, ErrClosed)
	}
	l.closed = true
	if l.blocked > 0 {
		rt.Probe(rt.PCloseWhileBlocked)
	}
	// connections still in the backlog are reset
	for e := l.bh; e != nil; e = e.next {
		Abort(e.c)
	}
	l.bh, l.bt = nil, nil
	rt.Seq()
	if rt.W.Verbose() {
		rt.Tracef("listener %s:%d close", l.host, l.port)
	}
	return nil
}

//go:norace
func (l *listener) Addr() Addr { return &TCPAddr{IP: net.ParseIP(l.host), Port: l.port} }

//go:norace
func (l *listener) SetDeadline(time.Time) error { return nil }

//go:norace
func isTCP(network string) bool { return network == "tcp" || network == "tcp4" || network == "tcp6" }

//go:norace
func isUDP(network string) bool { return network == "udp" || network == "udp4" || network == "udp6" }

//go:norace
func splitAddr(address string) (host string, port int, err error) {
	h, p, err := net.SplitHostPort(address)
	if err != nil {
		return "", 0, err
	}
	port, err = strconv.Atoi(p)
	if err != nil {
		pn, e2 := net.LookupPort("tcp", p)
		if e2 != nil {
			return "", 0, err
		}
		port, err = pn, nil
	}
	if port < 0 || port > 65535 {
		return "", 0, errors.New("invalid port")
	}
	if h != "" {
		ip := net.ParseIP(h)
		if ip == nil {
			if h == "localhost" {
				ip = net.IPv4(127, 0, 0, 1)
			} else {
				return "", 0, &net.DNSError{Err: "no such host", Name: h, IsNotFound: true}
			}
		}
		if ip.IsUnspecified() {
			h = ""
		} else {
			h = ipKey(ip)
		}
	}
	return h, port, nil
}

//go:norace
func Listen(network, address string) (Listener, error) {
	if rt.Aborting() {
		return nil, opErr("listen", network, ErrClosed)
	}
	if isUDP(network) {
		return nil, opErr("listen", network, net.UnknownNetworkError(network))
	}
	if !isTCP(network) {
		return nil, opErr("listen", network, net.UnknownNetworkError(network))
	}
	l, err := listen(network, address)
	if err != nil {
		return nil, err
	}
	return l, nil
}

//go:norace
func listen(network, address string) (*listener, error) {
	s := st()
	h, port, err := splitAddr(address)
	if err != nil {
		return nil, opErr("listen", network, err)
	}
	host := curHost()
	if h != "" && h != "127.0.0.1" && h != "::1" {
		host = h
	}
	if port == 0 {
		port = s.allocPort()
	}
	for l := s.lst; l != nil; l = l.next {
		if !l.closed && l.host == host && l.port == port {
			return nil, opErr("listen", network, os.NewSyscallError("bind", syscall.EADDRINUSE))
		}
	}
	l := &listener{host: host, port: port, network: network}
	l.next = s.lst
	s.lst = l
	rt.Seq()
	if rt.W.Verbose() {
		rt.Tracef("tcp listen %s:%d", host, port)
	}
	return l, nil
}

//go:norace
func ListenTCP(network string, laddr *TCPAddr) (*TCPListener, error) {
	if rt.Aborting() {
		return nil, opErr("listen", network, ErrClosed)
	}
	a := ":0"
	if laddr != nil {
		a = laddr.String()
	}
	return listen(network, a)
}

type xwait struct {
	key  string
	c    *StreamConn // the end reserved for the second dialer
	next *xwait
}

// Crossover address: two Dials to "203.0.113.<n>:<port>" style addresses registered here are joined back to back.
var crossover [8]string
var ncross int

// RegisterCrossover makes addr ("ip:port") a rendezvous address: the first two dialers are connected to each other.
//
//go:norace
func RegisterCrossover(addr string) {
	for i := 0; i < ncross; i++ {
		if crossover[i] == addr {
			return
		}
	}
	crossover[ncross] = addr
	ncross++
}

//go:norace
func isCrossover(addr string) bool {
	for i := 0; i < ncross; i++ {
		if crossover[i] == addr {
			return true
		}
	}
	return false
}

//go:norace
func dialStream(network, address string) (Conn, error) {
	s := st()
	h, port, err := splitAddr(address)
	if err != nil {
		return nil, opErr("dial", network, err)
	}
	me := curHost()
	if h == "" || h == "127.0.0.1" || h == "::1" {
		h = me
	}
	local := &TCPAddr{IP: net.ParseIP(me), Port: s.allocPort()}
	key := h + ":" + strconv.Itoa(port)
	if isCrossover(key) {
		var prev *xwait
		for x := s.xw; x != nil; x = x.next {
			if x.key == key {
				if prev == nil {
					s.xw = x.next
				} else {
					prev.next = x.next
				}
				c := x.c
				c.local = local
				c.peer.remote = local
				rt.Seq()
				return c, nil
			}
			prev = x
		}
		remote := &TCPAddr{IP: net.ParseIP(h), Port: port}
		c1, c2 := newPair(network, local, remote)
		if s.xSealed {
			// the run's own pairs are complete: a later dialer (a transport that re-dials on its own) reaches a
			// peer that hangs up at once
			c2.Close()
			rt.Seq()
			return c1, nil
		}
		s.lastX1, s.lastX2 = c1, c2
		s.xw = &xwait{key: key, c: c2, next: s.xw}
		rt.Seq()
		return c1, nil
	}
	for l := s.lst; l != nil; l = l.next {
		if l.closed || l.port != port || l.host != h {
			continue
		}
		remote := &TCPAddr{IP: net.ParseIP(h), Port: port}
		c1, c2 := newPair(network, local, remote)
		e := &backlogEnt{c: c2}
		if l.bt == nil {
			l.bh = e
		} else {
			l.bt.next = e
		}
		l.bt = e
		rt.Seq()
		if rt.W.Verbose() {
			rt.Tracef("dial %s -> stream#%d", key, c1.id)
		}
		return c1, nil
	}
	return nil, opErr("dial", network, os.NewSyscallError("connect", syscall.ECONNREFUSED))
}

//go:norace
func Dial(network, address string) (Conn, error) {
	if rt.Aborting() {
		return nil, opErr("dial", network, ErrClosed)
	}
	if isTCP(network) {
		return dialStream(network, address)
	}
	if isUDP(network) {
		ra, err := net.ResolveUDPAddr(network, address)
		if err != nil {
			return nil, opErr("dial", network, err)
		}
		c, err := DialUDP(network, nil, ra)
		if err != nil {
			return nil, err
		}
		return c, nil
	}
	return nil, opErr("dial", network, net.UnknownNetworkError(network))
}

//go:norace
func DialTimeout(network, address string, _ time.Duration) (Conn, error) {
	return Dial(network, address)
}

//go:norace
func DialTCP(network string, laddr, raddr *TCPAddr) (*TCPConn, error) {
	if raddr == nil {
		return nil, opErr("dial", network, errors.New("missing address"))
	}
	c, err := Dial(network, raddr.String())
	if err != nil {
		return nil, err
	}
	return c.(*StreamConn), nil
}

// Dialer mirrors the fields commonly set; timeouts are irrelevant because simulated connects are instantaneous.
type Dialer struct {
	Timeout         time.Duration
	Deadline        time.Time
	LocalAddr       Addr
	DualStack       bool
	FallbackDelay   time.Duration
	KeepAlive       time.Duration
	KeepAliveConfig net.KeepAliveConfig
	Resolver        *net.Resolver
	Cancel          <-chan struct{}
	Control         func(network, address string, c syscall.RawConn) error
	ControlContext  func(ctx context.Context, network, address string, c syscall.RawConn) error
}

//go:norace
func (d *Dialer) Dial(network, address string) (Conn, error) { return Dial(network, address) }

// DialContext: connection establishment takes no simulated time, so the context only matters if it is already done.
//
//go:norace
func (d *Dialer) DialContext(ctx context.Context, network, address string) (Conn, error) {
	if err := ctx.Err(); err != nil {
		return nil, opErr("dial", network, err)
	}
	return Dial(network, address)
}

// SealCrossover: from now on nobody is waiting at the crossover addresses any more (see Dial).
//
//go:norace
func SealCrossover() { st().xSealed = true }

// CloseUnpaired closes the far end of every crossover connection that is still waiting for its second dialer (a
// transport that re-dialled on its own after its connection broke talks to nobody: its writes must not block for ever).
//
//go:norace
func CloseUnpaired() int {
	s := st()
	n := 0
	for x := s.xw; x != nil; x = x.next {
		x.c.Close()
		n++
	}
	s.xw = nil
	return n
}

// LastCrossover returns the two ends of the most recent crossover connection (first dialer's end first).
//
//go:norace
func LastCrossover() (Conn, Conn) {
	s := st()
	if s.lastX1 == nil {
		return nil, nil
	}
	return s.lastX1, s.lastX2
}

// GroupMembers counts open sockets that joined a multicast group on the given port.
//
//go:norace
func GroupMembers(port int) int {
	n := 0
	for c := st().udp; c != nil; c = c.next {
		if !c.closed && c.group != "" && c.port == port {
			n++
		}
	}
	return n
}

// OpenSockets reports sockets created and still open in this run (leak probe).
//
//go:norace
func OpenSockets() (created, open int) {
	s := st()
	return s.sockets, s.openSocks
}

// SetDefaultWindow sets the window of streams created afterwards.
//
//go:norace
func SetDefaultWindow(n int) { st().Window = n }
