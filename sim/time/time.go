// Package time is the simulated stand-in for "time" in rewritten SUT code:
// the clock, sleeps, timers and tickers read the simulator's discrete-event
// clock; value types and pure functions are the real ones.
package time

import (
	"time"
	"unsafe"

	"verif.local/sim/rt"
)

type (
	Time       = time.Time
	Duration   = time.Duration
	Month      = time.Month
	Weekday    = time.Weekday
	Location   = time.Location
	ParseError = time.ParseError
)

const (
	Nanosecond  = time.Nanosecond
	Microsecond = time.Microsecond
	Millisecond = time.Millisecond
	Second      = time.Second
	Minute      = time.Minute
	Hour        = time.Hour

	Layout      = time.Layout
	ANSIC       = time.ANSIC
	UnixDate    = time.UnixDate
	RubyDate    = time.RubyDate
	RFC822      = time.RFC822
	RFC822Z     = time.RFC822Z
	RFC850      = time.RFC850
	RFC1123     = time.RFC1123
	RFC1123Z    = time.RFC1123Z
	RFC3339     = time.RFC3339
	RFC3339Nano = time.RFC3339Nano
	Kitchen     = time.Kitchen
	Stamp       = time.Stamp
	StampMilli  = time.StampMilli
	StampMicro  = time.StampMicro
	StampNano   = time.StampNano
	DateTime    = time.DateTime
	DateOnly    = time.DateOnly
	TimeOnly    = time.TimeOnly

	January   = time.January
	February  = time.February
	March     = time.March
	April     = time.April
	May       = time.May
	June      = time.June
	July      = time.July
	August    = time.August
	September = time.September
	October   = time.October
	November  = time.November
	December  = time.December

	Sunday    = time.Sunday
	Monday    = time.Monday
	Tuesday   = time.Tuesday
	Wednesday = time.Wednesday
	Thursday  = time.Thursday
	Friday    = time.Friday
	Saturday  = time.Saturday
)

var (
	UTC   = time.UTC
	Local = time.UTC // deterministic
)

func Unix(sec, nsec int64) Time { return time.Unix(sec, nsec).UTC() }
func UnixMilli(ms int64) Time   { return time.UnixMilli(ms).UTC() }
func UnixMicro(us int64) Time   { return time.UnixMicro(us).UTC() }
func Date(y int, m Month, d, h, mi, s, ns int, loc *Location) Time {
	return time.Date(y, m, d, h, mi, s, ns, loc)
}
func Parse(layout, value string) (Time, error) { return time.Parse(layout, value) }
func ParseInLocation(layout, value string, loc *Location) (Time, error) {
	return time.ParseInLocation(layout, value, loc)
}
func ParseDuration(s string) (Duration, error)    { return time.ParseDuration(s) }
func FixedZone(name string, off int) *Location    { return time.FixedZone(name, off) }
func LoadLocation(name string) (*Location, error) { return time.LoadLocation(name) }

// FromSim converts simulated nanoseconds to a Time.
func FromSim(ns int64) Time { return time.Unix(rt.EpochUnix, 0).UTC().Add(Duration(ns)) }

// ToSim converts a Time to simulated nanoseconds (for deadlines); the zero Time means "none" (-1).
func ToSim(t Time) int64 {
	if t.IsZero() {
		return -1
	}
	d := t.Sub(time.Unix(rt.EpochUnix, 0))
	if d < 0 {
		return 0
	}
	return int64(d)
}

func Now() Time {
	if rt.W == nil {
		return FromSim(0)
	}
	return FromSim(rt.Now())
}

func Since(t Time) Duration { return Now().Sub(t) }
func Until(t Time) Duration { return t.Sub(Now()) }

//go:norace
func Sleep(d Duration) {
	if rt.Aborting() {
		return
	}
	if d < 0 {
		d = 0
	}
	rt.SleepUntil(rt.Now() + int64(d))
}

// ---------------------------------------------------------------- timers

type Timer struct {
	C      <-chan Time
	c      chan Time
	ev     *rt.Event
	f      func()
	active bool
	tok    byte // happens-before from arming the timer to running its function (as the real AfterFunc gives)
}

func (t *Timer) run() {
	t.acquire()
	t.f()
}

//go:norace
func (t *Timer) acquire() { rt.RaceAcquire(unsafe.Pointer(&t.tok)) }

//go:norace
func (t *Timer) Fire() {
	t.active = false
	if t.f != nil {
		rt.Go("time.AfterFunc", t.run)
		return
	}
	rt.RaceDisable()
	select {
	case t.c <- FromSim(rt.Now()):
	default:
	}
	rt.RaceEnable()
	rt.Kick()
}

//go:norace
func NewTimer(d Duration) *Timer {
	c := make(chan Time, 1)
	t := &Timer{C: c, c: c}
	t.arm(d)
	return t
}

//go:norace
func (t *Timer) arm(d Duration) {
	if rt.Aborting() {
		return
	}
	if d < 0 {
		d = 0
	}
	t.active = true
	rt.RaceRelease(unsafe.Pointer(&t.tok))
	t.ev = rt.After(int64(d), t)
}

//go:norace
func (t *Timer) Stop() bool {
	was := t.active
	t.active = false
	rt.Cancel(t.ev)
	t.ev = nil
	return was
}

//go:norace
func (t *Timer) Reset(d Duration) bool {
	was := t.Stop()
	if t.c != nil {
		rt.RaceDisable()
		select {
		case <-t.c:
		default:
		}
		rt.RaceEnable()
	}
	t.arm(d)
	return was
}

//go:norace
func After(d Duration) <-chan Time { return NewTimer(d).C }

//go:norace
func AfterFunc(d Duration, f func()) *Timer {
	t := &Timer{f: f}
	t.arm(d)
	return t
}

type Ticker struct {
	C      <-chan Time
	c      chan Time
	d      Duration
	ev     *rt.Event
	active bool
}

//go:norace
func (t *Ticker) Fire() {
	if !t.active {
		return
	}
	rt.RaceDisable()
	select {
	case t.c <- FromSim(rt.Now()):
	default:
	}
	rt.RaceEnable()
	rt.Kick()
	t.ev = rt.After(int64(t.d), t)
}

//go:norace
func NewTicker(d Duration) *Ticker {
	if d <= 0 {
		panic("non-positive interval for NewTicker")
	}
	c := make(chan Time, 1)
	t := &Ticker{C: c, c: c, d: d, active: true}
	if !rt.Aborting() {
		t.ev = rt.After(int64(d), t)
	}
	return t
}

//go:norace
func (t *Ticker) Stop() {
	t.active = false
	rt.Cancel(t.ev)
}

//go:norace
func (t *Ticker) Reset(d Duration) {
	t.Stop()
	t.d = d
	t.active = true
	t.ev = rt.After(int64(d), t)
}

//go:norace
func Tick(d Duration) <-chan Time {
	if d <= 0 {
		return nil
	}
	return NewTicker(d).C
}
