// Package sync is the simulated stand-in for "sync" in rewritten SUT code.
// Same method sets and blocking semantics; blocking goes through the
// simulator's scheduler; the race detector is told about exactly the
// happens-before edges the real primitives create.
package sync

import (
	"unsafe"

	"verif.local/sim/rt"
)

type Locker interface {
	Lock()
	Unlock()
}

// ---------------------------------------------------------------- Mutex

// Every primitive is scoped to the run (world) that last touched it: package-level instances in SUT code
// (logger.LoggerLock, a global Pool, ...) start every simulated run in their zero state, whatever an earlier
// run in the same worker process left behind -- otherwise a run would not replay in a fresh process.
type Mutex struct {
	locked  bool
	tok     byte
	waiters int
	w       *rt.World
}

//go:norace
func (m *Mutex) scope() {
	if m.w != rt.W {
		m.locked, m.waiters, m.w = false, 0, rt.W
	}
}

//go:norace
func (m *Mutex) Ready(*rt.Task) bool { return !m.locked }

//go:norace
func (m *Mutex) Lock() {
	if rt.Aborting() {
		return
	}
	m.scope()
	if m.locked {
		m.waiters++
		rt.Probe(rt.PMutexContended)
		for m.locked {
			rt.Block(m, 0, "sync.Mutex.Lock", -1)
		}
		m.waiters--
	}
	m.locked = true
	rt.Seq()
	rt.RaceAcquire(unsafe.Pointer(&m.tok))
}

//go:norace
func (m *Mutex) TryLock() bool {
	if rt.Aborting() {
		return true
	}
	m.scope()
	if m.locked {
		return false
	}
	m.locked = true
	rt.RaceAcquire(unsafe.Pointer(&m.tok))
	return true
}

//go:norace
func (m *Mutex) Unlock() {
	if rt.Aborting() {
		return
	}
	m.scope()
	if !m.locked {
		panic("sync: unlock of unlocked mutex")
	}
	rt.RaceRelease(unsafe.Pointer(&m.tok))
	m.locked = false
	rt.Seq()
}

// ---------------------------------------------------------------- RWMutex

type RWMutex struct {
	w        bool
	readers  int
	pendingW int
	rtok     byte // readerSem
	wtok     byte // writerSem
	wd       *rt.World
}

//go:norace
func (m *RWMutex) scope() {
	if m.wd != rt.W {
		m.w, m.readers, m.pendingW, m.wd = false, 0, 0, rt.W
	}
}

type rwWait struct {
	m     *RWMutex
	write bool
}

//go:norace
func (r rwWait) Ready(*rt.Task) bool {
	if r.write {
		return !r.m.w && r.m.readers == 0
	}
	return !r.m.w && r.m.pendingW == 0
}

//go:norace
func (m *RWMutex) Lock() {
	if rt.Aborting() {
		return
	}
	m.scope()
	if m.w || m.readers > 0 {
		m.pendingW++
		if m.readers > 0 {
			rt.Probe(rt.PWriterBehindReader)
		}
		for m.w || m.readers > 0 {
			rt.Block(rwWait{m, true}, 0, "sync.RWMutex.Lock", -1)
		}
		m.pendingW--
	}
	m.w = true
	rt.Seq()
	rt.RaceAcquire(unsafe.Pointer(&m.rtok))
	rt.RaceAcquire(unsafe.Pointer(&m.wtok))
}

//go:norace
func (m *RWMutex) TryLock() bool {
	if rt.Aborting() {
		return true
	}
	m.scope()
	if m.w || m.readers > 0 {
		return false
	}
	m.w = true
	rt.RaceAcquire(unsafe.Pointer(&m.rtok))
	rt.RaceAcquire(unsafe.Pointer(&m.wtok))
	return true
}

//go:norace
func (m *RWMutex) Unlock() {
	if rt.Aborting() {
		return
	}
	m.scope()
	if !m.w {
		panic("sync: Unlock of unlocked RWMutex")
	}
	rt.RaceRelease(unsafe.Pointer(&m.rtok))
	rt.RaceRelease(unsafe.Pointer(&m.wtok))
	m.w = false
	rt.Seq()
}

//go:norace
func (m *RWMutex) RLock() {
	if rt.Aborting() {
		return
	}
	m.scope()
	for m.w || m.pendingW > 0 {
		rt.Block(rwWait{m, false}, 0, "sync.RWMutex.RLock", -1)
	}
	m.readers++
	if m.readers >= 2 {
		rt.Probe(rt.PTwoReaders)
	}
	rt.Seq()
	rt.RaceAcquire(unsafe.Pointer(&m.rtok))
}

//go:norace
func (m *RWMutex) TryRLock() bool {
	if rt.Aborting() {
		return true
	}
	m.scope()
	if m.w || m.pendingW > 0 {
		return false
	}
	m.readers++
	rt.RaceAcquire(unsafe.Pointer(&m.rtok))
	return true
}

//go:norace
func (m *RWMutex) RUnlock() {
	if rt.Aborting() {
		return
	}
	m.scope()
	if m.readers <= 0 {
		panic("sync: RUnlock of unlocked RWMutex")
	}
	rt.RaceReleaseMerge(unsafe.Pointer(&m.wtok))
	m.readers--
	rt.Seq()
}

type rlocker RWMutex

//go:norace
func (r *rlocker) Lock() { (*RWMutex)(r).RLock() }

//go:norace
func (r *rlocker) Unlock() { (*RWMutex)(r).RUnlock() }

//go:norace
func (m *RWMutex) RLocker() Locker { return (*rlocker)(m) }

// ---------------------------------------------------------------- WaitGroup

type WaitGroup struct {
	n       int
	waiters int
	gen     uint64 // incremented whenever the counter reaches zero with waiters present
	tok     byte
	sema    byte // only an address: models the "first Add must be synchronized with Wait" rule for the race detector
	w       *rt.World
}

//go:norace
func (wg *WaitGroup) scope() {
	if wg.w != rt.W {
		wg.n, wg.waiters, wg.w = 0, 0, rt.W
	}
}

type wgWait struct {
	wg  *WaitGroup
	gen uint64
}

//go:norace
func (w wgWait) Ready(*rt.Task) bool { return w.wg.gen != w.gen }

//go:norace
func (wg *WaitGroup) Add(delta int) {
	if rt.Aborting() {
		return
	}
	wg.scope()
	if delta < 0 {
		rt.RaceReleaseMerge(unsafe.Pointer(&wg.tok))
	}
	old := wg.n
	wg.n += delta
	if delta > 0 && old == 0 {
		// like the real WaitGroup: the first increment must be synchronized with Wait
		rt.RaceReadRange(unsafe.Pointer(&wg.sema), 1)
	}
	if wg.n < 0 {
		panic("sync: negative WaitGroup counter")
	}
	if wg.waiters > 0 && delta > 0 && old == 0 {
		panic("sync: WaitGroup misuse: Add called concurrently with Wait")
	}
	if wg.n == 0 && wg.waiters > 0 {
		wg.gen++
		wg.waiters = 0
	}
	rt.Seq()
}

//go:norace
func (wg *WaitGroup) Done() { wg.Add(-1) }

//go:norace
func (wg *WaitGroup) Wait() {
	if rt.Aborting() {
		return
	}
	wg.scope()
	if wg.n != 0 {
		if wg.waiters == 0 {
			rt.RaceWriteRange(unsafe.Pointer(&wg.sema), 1)
		}
		wg.waiters++
		g := wg.gen
		for wg.gen == g {
			rt.Block(wgWait{wg, g}, 0, "sync.WaitGroup.Wait", -1)
		}
		if wg.n != 0 {
			panic("sync: WaitGroup is reused before previous Wait has returned")
		}
	}
	rt.RaceAcquire(unsafe.Pointer(&wg.tok))
}

// Go mirrors sync.WaitGroup.Go (Go 1.25).
func (wg *WaitGroup) Go(f func()) {
	wg.Add(1)
	rt.Go("sync.WaitGroup.Go", wgRun{wg, f}.run)
}

type wgRun struct {
	wg *WaitGroup
	f  func()
}

func (r wgRun) run() {
	defer r.wg.Done()
	r.f()
}

// ---------------------------------------------------------------- Once

type Once struct {
	state int // 0 = not run, 1 = running, 2 = done
	tok   byte
	w     *rt.World
}

//go:norace
func (o *Once) Ready(*rt.Task) bool { return o.state != 1 }

func (o *Once) Do(f func()) {
	if !o.begin() {
		return
	}
	defer o.end()
	f()
}

//go:norace
func (o *Once) begin() bool {
	if rt.Aborting() {
		return false
	}
	if o.w != rt.W {
		o.state, o.w = 0, rt.W
	}
	for o.state == 1 {
		rt.Block(o, 0, "sync.Once.Do", -1)
	}
	if o.state == 2 {
		rt.RaceAcquire(unsafe.Pointer(&o.tok))
		return false
	}
	o.state = 1
	return true
}

//go:norace
func (o *Once) end() {
	rt.RaceRelease(unsafe.Pointer(&o.tok))
	o.state = 2
}

// ---------------------------------------------------------------- Cond

type Cond struct {
	L       Locker
	gen     uint64 // incremented by Broadcast
	tickets uint64 // Signal tickets
	served  uint64
}

//go:norace
func NewCond(l Locker) *Cond { return &Cond{L: l} }

type condWait struct {
	c      *Cond
	gen    uint64
	ticket uint64
}

//go:norace
func (cw *condWait) Ready(*rt.Task) bool {
	return cw.c.gen != cw.gen || cw.c.served > cw.ticket
}

func (c *Cond) Wait() {
	cw := c.enqueue()
	c.L.Unlock()
	c.park(cw)
	c.L.Lock()
}

//go:norace
func (c *Cond) enqueue() *condWait {
	c.tickets++
	return &condWait{c: c, gen: c.gen, ticket: c.tickets - 1}
}

//go:norace
func (c *Cond) park(cw *condWait) {
	if rt.Aborting() {
		return
	}
	for !cw.Ready(nil) {
		rt.Block(cw, 0, "sync.Cond.Wait", -1)
	}
}

//go:norace
func (c *Cond) Signal() {
	if c.served < c.tickets {
		c.served++
	}
}

//go:norace
func (c *Cond) Broadcast() {
	c.gen++
	c.served = c.tickets
}

// ---------------------------------------------------------------- Map

type mapEntry struct {
	k, v    any
	deleted bool
	next    *mapEntry
}

// Map is sync.Map with deterministic (insertion order) Range.
type Map struct {
	head, tail *mapEntry
	tok        byte
	w          *rt.World
}

//go:norace
func (m *Map) find(k any) *mapEntry {
	if m.w != rt.W {
		m.head, m.tail, m.w = nil, nil, rt.W
	}
	for e := m.head; e != nil; e = e.next {
		if !e.deleted && e.k == k {
			return e
		}
	}
	return nil
}

//go:norace
func (m *Map) Load(key any) (value any, ok bool) {
	rt.Seq()
	rt.RaceAcquire(unsafe.Pointer(&m.tok))
	if e := m.find(key); e != nil {
		return e.v, true
	}
	return nil, false
}

//go:norace
func (m *Map) Store(key, value any) {
	if rt.Aborting() {
		return
	}
	rt.Seq()
	rt.RaceReleaseMerge(unsafe.Pointer(&m.tok))
	if e := m.find(key); e != nil {
		e.v = value
		return
	}
	e := &mapEntry{k: key, v: value}
	if m.tail == nil {
		m.head = e
	} else {
		m.tail.next = e
	}
	m.tail = e
}

//go:norace
func (m *Map) Clear() {
	if rt.Aborting() || m.w != rt.W {
		return
	}
	for e := m.head; e != nil; e = e.next {
		e.deleted = true
	}
}

//go:norace
func (m *Map) LoadOrStore(key, value any) (actual any, loaded bool) {
	rt.RaceAcquire(unsafe.Pointer(&m.tok))
	if e := m.find(key); e != nil {
		return e.v, true
	}
	m.Store(key, value)
	return value, false
}

//go:norace
func (m *Map) LoadAndDelete(key any) (value any, loaded bool) {
	if rt.Aborting() {
		return nil, false
	}
	rt.Seq()
	rt.RaceAcquire(unsafe.Pointer(&m.tok))
	if e := m.find(key); e != nil {
		e.deleted = true
		rt.RaceReleaseMerge(unsafe.Pointer(&m.tok))
		return e.v, true
	}
	return nil, false
}

//go:norace
func (m *Map) Delete(key any) { m.LoadAndDelete(key) }

//go:norace
func (m *Map) Swap(key, value any) (previous any, loaded bool) {
	rt.RaceAcquire(unsafe.Pointer(&m.tok))
	if e := m.find(key); e != nil {
		previous, loaded = e.v, true
	}
	m.Store(key, value)
	return
}

//go:norace
func (m *Map) CompareAndSwap(key, old, new any) bool {
	rt.RaceAcquire(unsafe.Pointer(&m.tok))
	if e := m.find(key); e != nil && e.v == old {
		m.Store(key, new)
		return true
	}
	return false
}

//go:norace
func (m *Map) CompareAndDelete(key, old any) bool {
	rt.RaceAcquire(unsafe.Pointer(&m.tok))
	if e := m.find(key); e != nil && e.v == old {
		e.deleted = true
		return true
	}
	return false
}

//go:norace
func (m *Map) nextLive(e *mapEntry) *mapEntry {
	for e != nil && e.deleted {
		e = e.next
	}
	return e
}

// Range calls f in insertion order (the real sync.Map order depends on the
// per-process hash seed, which would break replay).
func (m *Map) Range(f func(key, value any) bool) {
	rt.RaceAcquire(unsafe.Pointer(&m.tok))
	for e := m.nextLive(m.first()); e != nil; e = m.nextLive(m.after(e)) {
		k, v := m.kv(e)
		if !f(k, v) {
			return
		}
	}
}

//go:norace
func (m *Map) first() *mapEntry {
	if m.w != rt.W {
		m.head, m.tail, m.w = nil, nil, rt.W
	}
	return m.head
}

//go:norace
func (m *Map) after(e *mapEntry) *mapEntry { return e.next }

//go:norace
func (m *Map) kv(e *mapEntry) (any, any) { return e.k, e.v }

// ---------------------------------------------------------------- Pool, OnceFunc & co

// Pool reuses objects like the real sync.Pool may: Put keeps the object on a free list, Get pops the
// most recent one or -- a choice of the run -- drops it and calls New (both are legal Pool behaviour).
// Race edges as in the real Pool: Put releases, Get of that object acquires.
type poolEnt struct {
	v    any
	tok  byte
	next *poolEnt
}

type Pool struct {
	New  func() any
	free *poolEnt
	n    int
	w    *rt.World
}

//go:norace
func (p *Pool) scope() {
	if p.w != rt.W {
		p.free, p.n, p.w = nil, 0, rt.W
	}
}

//go:norace
func (p *Pool) pop() (any, bool) {
	p.scope()
	if rt.Aborting() || p.free == nil {
		return nil, false
	}
	e := p.free
	p.free = e.next
	p.n--
	if rt.Choose(4, rt.KSched) == 3 {
		return nil, false // dropped, as a GC cycle would
	}
	rt.RaceAcquire(unsafe.Pointer(&e.tok))
	rt.Seq()
	return e.v, true
}

//go:norace
func (p *Pool) push(v any) {
	p.scope()
	if rt.Aborting() || v == nil || p.n >= 64 {
		return
	}
	e := &poolEnt{v: v, next: p.free}
	rt.RaceRelease(unsafe.Pointer(&e.tok))
	p.free = e
	p.n++
	rt.Seq()
}

func (p *Pool) Get() any {
	if v, ok := p.pop(); ok {
		return v
	}
	if p.New != nil {
		return p.New()
	}
	return nil
}

func (p *Pool) Put(v any) { p.push(v) }

func OnceFunc(f func()) func() {
	o := &onceFn{f: f}
	return o.call
}

type onceFn struct {
	o Once
	f func()
}

func (o *onceFn) call() { o.o.Do(o.f) }
