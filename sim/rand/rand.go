// Package rand is the simulated stand-in for "math/rand": every value comes
// from the run's choice stream.
package rand

import (
	"unsafe"

	"verif.local/sim/rt"
)

//go:norace
func bits16() uint64 {
	if rt.Aborting() {
		return 0
	}
	return uint64(rt.Choose(1<<16, rt.KRand))
}

func Uint32() uint32 { return uint32(bits16()<<16 | bits16()) }
func Uint64() uint64 { return uint64(Uint32())<<32 | uint64(Uint32()) }
func Int63() int64   { return int64(Uint64() >> 1) }
func Int31() int32   { return int32(Uint32() >> 1) }
func Int() int       { return int(uint(Uint64()) >> 1) }
func Int63n(n int64) int64 {
	if n <= 0 {
		panic("invalid argument to Int63n")
	}
	return Int63() % n
}
func Int31n(n int32) int32 {
	if n <= 0 {
		panic("invalid argument to Int31n")
	}
	return Int31() % n
}
func Intn(n int) int {
	if n <= 0 {
		panic("invalid argument to Intn")
	}
	return int(Int63() % int64(n))
}
func Float64() float64 { return float64(Int63n(1<<53)) / (1 << 53) }
func Float32() float32 { return float32(Int31n(1<<24)) / (1 << 24) }
func Seed(int64)       {}
func Perm(n int) []int {
	m := make([]int, n)
	for i := 0; i < n; i++ {
		j := Intn(i + 1)
		m[i] = m[j]
		m[j] = i
	}
	return m
}
func Shuffle(n int, swap func(i, j int)) {
	for i := n - 1; i > 0; i-- {
		swap(i, Intn(i+1))
	}
}
func Read(p []byte) (int, error) {
	for i := range p {
		p[i] = byte(bits16())
	}
	return len(p), nil
}

type Source interface {
	Int63() int64
	Seed(seed int64)
}

type simSource struct{}

func (simSource) Int63() int64 { return Int63() }
func (simSource) Seed(int64)   {}

func NewSource(int64) Source { return simSource{} }

// Rand: a generator value of its own, as rand.New returns. Unlike the package-level functions it is NOT safe for
// concurrent use in the real package; every method therefore counts as a write to the generator's state, so that
// the race detector sees two tasks sharing one *Rand without synchronisation.
type Rand struct{ state uint64 }

//go:norace
func (r *Rand) touch() {
	if r != nil {
		rt.RaceWriteRange(unsafe.Pointer(&r.state), 8)
	}
}

func New(Source) *Rand                          { return &Rand{} }
func (r *Rand) Uint32() uint32                  { r.touch(); return Uint32() }
func (r *Rand) Uint64() uint64                  { r.touch(); return Uint64() }
func (r *Rand) Int63() int64                    { r.touch(); return Int63() }
func (r *Rand) Int31() int32                    { r.touch(); return Int31() }
func (r *Rand) Int() int                        { r.touch(); return Int() }
func (r *Rand) Int63n(n int64) int64            { r.touch(); return Int63n(n) }
func (r *Rand) Int31n(n int32) int32            { r.touch(); return Int31n(n) }
func (r *Rand) Intn(n int) int                  { r.touch(); return Intn(n) }
func (r *Rand) Float64() float64                { r.touch(); return Float64() }
func (r *Rand) Float32() float32                { r.touch(); return Float32() }
func (*Rand) Seed(int64)                        {}
func (r *Rand) Perm(n int) []int                { r.touch(); return Perm(n) }
func (r *Rand) Shuffle(n int, f func(i, j int)) { r.touch(); Shuffle(n, f) }
func (r *Rand) Read(p []byte) (int, error)      { r.touch(); return Read(p) }
