// Package rand is the simulated stand-in for "math/rand/v2": values come from the run's choice stream.
package rand

import base "verif.local/sim/rand"

func Uint32() uint32       { return base.Uint32() }
func Uint64() uint64       { return base.Uint64() }
func Int64() int64         { return base.Int63() }
func Int32() int32         { return base.Int31() }
func Int() int             { return base.Int() }
func IntN(n int) int       { return base.Intn(n) }
func Int64N(n int64) int64 { return base.Int63n(n) }
func Int32N(n int32) int32 { return base.Int31n(n) }
func Uint32N(n uint32) uint32 {
	if n == 0 {
		panic("invalid argument to Uint32N")
	}
	return base.Uint32() % n
}
func Uint64N(n uint64) uint64 {
	if n == 0 {
		panic("invalid argument to Uint64N")
	}
	return base.Uint64() % n
}
func UintN(n uint) uint                  { return uint(Uint64N(uint64(n))) }
func Uint() uint                         { return uint(base.Uint64()) }
func Float64() float64                   { return base.Float64() }
func Float32() float32                   { return base.Float32() }
func Perm(n int) []int                   { return base.Perm(n) }
func Shuffle(n int, swap func(i, j int)) { base.Shuffle(n, swap) }

type integer interface {
	~int | ~int8 | ~int16 | ~int32 | ~int64 | ~uint | ~uint8 | ~uint16 | ~uint32 | ~uint64 | ~uintptr
}

func N[T integer](n T) T {
	if n <= 0 {
		panic("invalid argument to N")
	}
	return T(base.Uint64() % uint64(n))
}
