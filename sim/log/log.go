// Package log is the simulated stand-in for "log": silent and lock-free.
// (Dropping log's internal mutex is sound for race detection: logging never
// blocks, so it adds no ordering a correct program may rely on.)
package log

import (
	"fmt"
	"io"
	"os"
)

const (
	Ldate = 1 << iota
	Ltime
	Lmicroseconds
	Llongfile
	Lshortfile
	LUTC
	Lmsgprefix
	LstdFlags = Ldate | Ltime
)

type Logger struct{}

var std = &Logger{}

func New(io.Writer, string, int) *Logger { return &Logger{} }
func Default() *Logger                   { return std }

func (*Logger) Printf(string, ...any)     {}
func (*Logger) Print(...any)              {}
func (*Logger) Println(...any)            {}
func (*Logger) Fatalf(f string, a ...any) { panic("log.Fatalf: " + fmt.Sprintf(f, a...)) }
func (*Logger) Fatal(a ...any)            { panic("log.Fatal: " + fmt.Sprint(a...)) }
func (*Logger) Fatalln(a ...any)          { panic("log.Fatalln: " + fmt.Sprint(a...)) }
func (*Logger) Panicf(f string, a ...any) { panic(fmt.Sprintf(f, a...)) }
func (*Logger) Panic(a ...any)            { panic(fmt.Sprint(a...)) }
func (*Logger) Panicln(a ...any)          { panic(fmt.Sprintln(a...)) }
func (*Logger) SetOutput(io.Writer)       {}
func (*Logger) SetFlags(int)              {}
func (*Logger) SetPrefix(string)          {}
func (*Logger) Flags() int                { return 0 }
func (*Logger) Prefix() string            { return "" }
func (*Logger) Writer() io.Writer         { return io.Discard }
func (*Logger) Output(int, string) error  { return nil }

func Printf(string, ...any)     {}
func Print(...any)              {}
func Println(...any)            {}
func Fatalf(f string, a ...any) { panic("log.Fatalf: " + fmt.Sprintf(f, a...)) }
func Fatal(a ...any)            { panic("log.Fatal: " + fmt.Sprint(a...)) }
func Fatalln(a ...any)          { panic("log.Fatalln: " + fmt.Sprint(a...)) }
func Panicf(f string, a ...any) { panic(fmt.Sprintf(f, a...)) }
func Panic(a ...any)            { panic(fmt.Sprint(a...)) }
func Panicln(a ...any)          { panic(fmt.Sprintln(a...)) }
func SetOutput(io.Writer)       {}
func SetFlags(int)              {}
func SetPrefix(string)          {}
func Flags() int                { return 0 }
func Prefix() string            { return "" }
func Writer() io.Writer         { return io.Discard }
func Output(int, string) error  { return nil }

var _ = os.Stderr
