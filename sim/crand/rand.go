// Package rand is the simulated stand-in for "crypto/rand": bytes come from the run's choice stream.
package rand

import (
	"io"
	"math/big"

	base "verif.local/sim/rand"
)

type reader struct{}

func (reader) Read(p []byte) (int, error) { return base.Read(p) }

var Reader io.Reader = reader{}

func Read(p []byte) (int, error) { return base.Read(p) }

func Int(_ io.Reader, max *big.Int) (*big.Int, error) {
	if max.Sign() <= 0 {
		panic("crypto/rand: argument to Int is <= 0")
	}
	b := make([]byte, (max.BitLen()+7)/8+1)
	base.Read(b)
	n := new(big.Int).SetBytes(b)
	return n.Mod(n, max), nil
}

func Text() string {
	const a = "ABCDEFGHIJKLMNOPQRSTUVWXYZ234567"
	b := make([]byte, 26)
	base.Read(b)
	for i := range b {
		b[i] = a[b[i]%32]
	}
	return string(b)
}
