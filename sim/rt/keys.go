package rt

import "fmt"

//go:norace
func lessAny(a, b any) bool {
	switch x := a.(type) {
	case string:
		return x < b.(string)
	case int:
		return x < b.(int)
	case int64:
		return x < b.(int64)
	case int32:
		return x < b.(int32)
	case int16:
		return x < b.(int16)
	case int8:
		return x < b.(int8)
	case uint:
		return x < b.(uint)
	case uint64:
		return x < b.(uint64)
	case uint32:
		return x < b.(uint32)
	case uint16:
		return x < b.(uint16)
	case uint8:
		return x < b.(uint8)
	case uintptr:
		return x < b.(uintptr)
	case float64:
		return x < b.(float64)
	case float32:
		return x < b.(float32)
	case bool:
		return !x && b.(bool)
	}
	return fmt.Sprintf("%v", a) < fmt.Sprintf("%v", b)
}

// SortedKeys returns the keys of m in a deterministic order (rewritten `for range` over maps).
//
//go:norace
func SortedKeys[K comparable, V any](m map[K]V) []K {
	keys := make([]K, 0, len(m))
	for k := range m {
		keys = append(keys, k)
	}
	for i := 1; i < len(keys); i++ {
		for j := i; j > 0 && lessAny(any(keys[j]), any(keys[j-1])); j-- {
			keys[j], keys[j-1] = keys[j-1], keys[j]
		}
	}
	return keys
}
