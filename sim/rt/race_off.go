//go:build !race

package rt

import "unsafe"

// RaceBuild reports whether the binary was built with -race.
const RaceBuild = false

func RaceDisable()                           {}
func RaceEnable()                            {}
func RaceAcquire(p unsafe.Pointer)           {}
func RaceRelease(p unsafe.Pointer)           {}
func RaceReleaseMerge(p unsafe.Pointer)      {}
func RaceReadRange(p unsafe.Pointer, n int)  {}
func RaceWriteRange(p unsafe.Pointer, n int) {}
