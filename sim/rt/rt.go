// Package rt is the deterministic simulation runtime: a baton scheduler over
// real goroutines, a discrete-event clock and the single choice stream from
// which every nondeterministic decision of a run is drawn.
//
// RULES for this package and every other package under sim/ (checked by
// simgen -lint): every function is //go:norace, there are no function
// literals, no maps, no growing appends and no copy() on memory shared
// between tasks.  Reason: the baton hand-over is hidden from the race
// detector (RaceDisable), so that TSan only sees the happens-before edges
// created by the SUT's own synchronisation; simulator-internal state is
// therefore "racy" in TSan's eyes and must stay invisible to it.
package rt

import (
	"fmt"
	"runtime"
	"runtime/debug"
	"unsafe"
)

// Kind labels a choice; it selects the generation bias and makes replay files readable.
type Kind uint8

const (
	KSched    Kind = iota // which candidate runs next, current task is candidate 0 (0 = boring)
	KSchedU               // which candidate runs next, no current task (uniform)
	KGap                  // number of Points until the next preemption (0 = none)
	KSelect               // poll start index of a select
	KTimeSkip             // let time pass although tasks are runnable
	KDrop                 // datagram dropped
	KDup                  // datagram duplicated
	KDelay                // delivery delay bucket
	KSeg                  // stream segmentation
	KCoalesce             // stream read coalescing
	KRand                 // math/rand values
	KGen                  // workload generation (harness)
	KFault                // harness level fault decisions (cut offsets, stop times, clock jumps)
	KPrio                 // PCT mode: task priorities
	KStall                // the task is descheduled on return from a send until everybody else has run dry
	NumKinds
)

var KindNames = [NumKinds]string{"sched", "schedU", "gap", "select", "timeskip", "drop", "dup", "delay", "seg", "coalesce", "rand", "gen", "fault", "prio", "stall"}

// NumProbes is the number of rare-condition counters a run carries (names are owned by sim/net and the harness).
const NumProbes = 96

// Probes owned by the simulator itself; harness probes start at PUser.
const (
	PMutexContended = iota
	PWriterBehindReader
	PTwoReaders
	PDeadlineExpired
	PDgramDropped
	PDgramDup
	PDgramDelayed
	PDgramTruncated
	PCloseWhileBlocked
	PShortRead
	PSegmented
	PCoalesced
	PWindowFull
	PReset
	PFin
	PUser = 24
)

var SimProbeNames = [PUser]string{"mutex_contended", "writer_blocked_behind_reader", "two_readers_inside_rlock", "deadline_expired", "dgram_dropped", "dgram_duplicated", "dgram_delayed", "dgram_truncated", "close_while_blocked", "short_read", "write_segmented", "segments_coalesced", "window_full", "stream_reset", "stream_fin"}

// Waitable is something a task can block on; Ready is evaluated by the
// scheduler (under the baton) to find out whether the task may continue.
type Waitable interface {
	Ready(t *Task) bool
}

// Firer is a timed event.
type Firer interface {
	Fire()
}

type Event struct {
	fired bool
	at    int64
	seq   uint64
	f     Firer
	next  *Event
	Dead  bool
	// Chain: events with the same non-zero chain fire in the order they were scheduled (a TCP stream is FIFO)
	Chain uintptr
}

const (
	stRunning = iota
	stRunnable
	stBlocked
	stDone
)

type Task struct {
	stallGap  int  // StallAfter: statements left until the task deschedules itself (0 = off)
	killed    bool // reaped by the harness (ReapBlockedSUT): unwinds with Goexit the next time it is scheduled
	stalled   bool // descheduled until no other task can run and no event is due (StallPoint)
	ID        int
	Name      string
	Site      string
	Host      string // simulated host address of this task ("" = default)
	SUT       bool   // spawned by a rewritten `go` statement
	wake      chan struct{}
	state     int
	wobj      Waitable
	Warg      int
	Wreason   string
	wdeadline int64
	TimedOut  bool
	gap       int
	since     int // Points since the task last blocked
	next      *Task
	parent    *Task
	exitTok   byte
	selTok    byte
	prio      int64
	panicVal  string
	// select parking
	sel       []SelCase
	selDone   int
	seenEpoch uint64
	Local     any // harness scratch
}

type Verdict struct {
	Class string
	Key   string
	Msg   string
}

type Stats struct {
	Choices     [NumKinds]int64
	NonBoring   [NumKinds]int64
	Steps       int64
	Preemptions int64
	Switches    int64
	Events      int64
	TimeSkips   int64
	Stalls      int64
	ClockJumps  int64
	Tasks       int64
	SelectMulti int64
	Probes      [NumProbes]int64
}

type Config struct {
	Seed     uint64
	Replay   []uint32 // non-nil: replay mode
	MaxSteps int64
	Verbose  bool
	NPoints  int
	// PCT: priority-based scheduling (Burckhardt et al., "A randomized scheduler with probabilistic guarantees of
	// finding bugs"): every task gets a random priority, the highest-priority ready task always runs, and at a few
	// random points the running task is demoted below everybody. Finds ordering bugs of small depth (one task running
	// far ahead of another) that a random walk over ready tasks reaches only with tiny probability.
	PCT bool
	// ManualSched (with PCT): priorities and first gaps are set by the harness (SetSched), nothing is drawn for them --
	// used by systematic enumerations of "task B runs entirely inside the k-th statement boundary of task A".
	ManualSched bool
	// generation biases, 0..65536, per kind (probability of a non-boring value)
	Bias [NumKinds]uint32
}

type u32chunk struct {
	v    [1024]uint32
	n    int
	next *u32chunk
}

type strchunk struct {
	v    [256]string
	n    int
	next *strchunk
}

type World struct {
	cfg      Config
	replay   bool
	in       []uint32
	inPos    int
	outHead  *u32chunk
	outTail  *u32chunk
	kindHead *u32chunk
	kindTail *u32chunk
	outN     int
	rng      uint64

	tasks     *Task
	tasksTail *Task
	ntasks    int
	cur       *Task

	now   int64
	ev    *Event
	evSeq uint64

	seq      uint64
	serial   uint64
	evPrio   int64  // PCT: priority of "deliver a due event"
	lowPrio  int64  // PCT: next demotion priority (decreasing)
	Procs    int    // simulated GOMAXPROCS / NumCPU (0 = not drawn yet; sim/runtime)
	urgent   *Task  // runs ahead of everybody until it blocks (AfterPoints)
	ptTask   *Task  // task parked in AfterPoints
	ptLeft   int    // statements of other tasks still to go before ptTask is released
	ptStall  bool   // AfterPointsStall: the task interrupted at that moment is descheduled (see StallPoint)
	nStalled int    // tasks with stalled set
	lastNop  *Event // the latest deadline wake-up event (Block)
	epoch    uint64
	hash     uint64
	Quiet    bool // quiet phase: no time skipping, no faults (harness sets it)
	NoSkip   bool

	aborting bool
	ended    bool
	verdict  *Verdict
	done     chan struct{}
	ack      chan struct{}
	joinTok  byte

	Stats  Stats
	Points []uint32

	trHead *strchunk
	trTail *strchunk
	trN    int

	AbortHook func() // called (by the ending task) right before tasks are aborted
	Net       any    // owned by sim/net
	User      any    // owned by the harness
}

// W is the world of the run in progress (one simulator per process, one run at a time).
var W *World

// Epoch of simulated time.
const EpochUnix = 1704067200 // 2024-01-01T00:00:00Z

//go:norace
func NewWorld(cfg Config) *World {
	w := &World{cfg: cfg}
	if cfg.Replay != nil {
		w.replay = true
		w.in = cfg.Replay
	}
	w.rng = cfg.Seed*0x9E3779B97F4A7C15 + 0x1234567
	if cfg.MaxSteps == 0 {
		w.cfg.MaxSteps = 5_000_000
	}
	w.done = make(chan struct{}, 1)
	w.ack = make(chan struct{}, 1)
	w.Points = make([]uint32, cfg.NPoints+1)
	w.hash = 0xcbf29ce484222325
	return w
}

//go:norace
func (w *World) next64() uint64 {
	w.rng += 0x9E3779B97F4A7C15
	z := w.rng
	z = (z ^ (z >> 30)) * 0xBF58476D1CE4E5B9
	z = (z ^ (z >> 27)) * 0x94D049BB133111EB
	return z ^ (z >> 31)
}

//go:norace
func (w *World) record(v uint32, k Kind) {
	if w.outTail == nil || w.outTail.n == len(w.outTail.v) {
		c := &u32chunk{}
		kc := &u32chunk{}
		if w.outTail == nil {
			w.outHead, w.kindHead = c, kc
		} else {
			w.outTail.next, w.kindTail.next = c, kc
		}
		w.outTail, w.kindTail = c, kc
	}
	w.outTail.v[w.outTail.n] = v
	w.outTail.n++
	w.kindTail.v[w.kindTail.n] = uint32(k)
	w.kindTail.n++
	w.outN++
}

// Choose returns a value in [0,n). 0 is always the "boring" choice.
//
//go:norace
func Choose(n int, k Kind) int {
	w := W
	if n <= 1 {
		return 0
	}
	var v int
	if w.replay {
		if w.inPos < len(w.in) {
			v = int(w.in[w.inPos]) % n
		}
		w.inPos++
	} else {
		r := w.next64()
		switch k {
		case KSchedU, KSelect, KGen, KRand, KPrio:
			v = int((r >> 16) % uint64(n))
		default:
			if uint32(r&0xFFFF) < w.cfg.Bias[k] {
				v = 1 + int((r>>16)%uint64(n-1))
			}
		}
	}
	w.record(uint32(v), k)
	w.Stats.Choices[k]++
	if v != 0 {
		w.Stats.NonBoring[k]++
	}
	w.mix(uint64(k)+1, uint64(v))
	return v
}

// Chance is Choose(2,k)==1.
//
//go:norace
func Chance(k Kind) bool { return Choose(2, k) == 1 }

//go:norace
func (w *World) mix(a, b uint64) {
	h := w.hash
	h ^= a
	h *= 0x100000001b3
	h ^= b
	h *= 0x100000001b3
	h ^= h >> 29
	w.hash = h
}

// Mix folds harness-visible facts into the interleaving signature.
//
//go:norace
func Mix(a, b uint64) { W.mix(a, b) }

//go:norace
func (w *World) Hash() uint64 { return w.hash }

// SimNow is the simulated time (ns) the run has reached.
//
//go:norace
func (w *World) SimNow() int64 { return w.now }

// Recorded returns the effective choice stream of the run (call after Run).
func (w *World) Recorded() (vals []uint32, kinds []uint8) {
	vals = make([]uint32, 0, w.outN)
	kinds = make([]uint8, 0, w.outN)
	kc := w.kindHead
	for c := w.outHead; c != nil; c = c.next {
		vals = append(vals, c.v[:c.n]...)
		for i := 0; i < kc.n; i++ {
			kinds = append(kinds, uint8(kc.v[i]))
		}
		kc = kc.next
	}
	return
}

// Trace returns the verbose trace (Verbose runs only; call after Run).
func (w *World) Trace() []string {
	var out []string
	for c := w.trHead; c != nil; c = c.next {
		out = append(out, c.v[:c.n]...)
	}
	return out
}

//go:norace
func (w *World) Verbose() bool { return w.cfg.Verbose }

// Tracef appends to the verbose trace. Callers must guard with Verbose() to
// avoid formatting cost; it never draws choices and never reads a real clock.
//
//go:norace
func Tracef(format string, args ...any) {
	w := W
	if w == nil || !w.cfg.Verbose {
		return
	}
	name := "-"
	if w.cur != nil {
		name = w.cur.Name
	}
	s := fmt.Sprintf("#%d t=%s [%s] ", w.seq, fmtDur(w.now), name) + fmt.Sprintf(format, args...)
	if w.trTail == nil || w.trTail.n == len(w.trTail.v) {
		c := &strchunk{}
		if w.trTail == nil {
			w.trHead = c
		} else {
			w.trTail.next = c
		}
		w.trTail = c
	}
	w.trTail.v[w.trTail.n] = s
	w.trTail.n++
	w.trN++
}

//go:norace
func fmtDur(ns int64) string {
	return fmt.Sprintf("%d.%06ds", ns/1e9, (ns%1e9)/1e3)
}

// Now returns simulated nanoseconds since the epoch of the run.
//
//go:norace
func Now() int64 { return W.now }

// Seq returns the next global event sequence number (a total order over everything observable).
//
//go:norace
func Seq() uint64 {
	w := W
	w.seq++
	return w.seq
}

//go:norace
func Cur() *Task { return W.cur }

//go:norace
func Aborting() bool { return W == nil || W.aborting }

//go:norace
func Probe(p int) { W.Stats.Probes[p]++ }

// ---------------------------------------------------------------- events

//go:norace
func (w *World) At(at int64, f Firer) *Event {
	if at < w.now {
		at = w.now
	}
	w.evSeq++
	e := &Event{at: at, seq: w.evSeq, f: f}
	if w.ev == nil || at < w.ev.at {
		e.next = w.ev
		w.ev = e
		return e
	}
	p := w.ev
	for p.next != nil && p.next.at <= at {
		p = p.next
	}
	e.next = p.next
	p.next = e
	return e
}

// After schedules f at now+d.
//
//go:norace
func After(d int64, f Firer) *Event { return W.At(W.now+d, f) }

type nop struct{}

//go:norace
func (nop) Fire() {}

// ---------------------------------------------------------------- tasks

//go:norace
func (w *World) newTask(name, site string, sut bool) *Task {
	t := &Task{ID: w.ntasks, Name: name, Site: site, SUT: sut, wake: make(chan struct{}, 1), state: stRunnable, wdeadline: -1}
	w.ntasks++
	w.Stats.Tasks++
	if w.cur != nil {
		t.Host = w.cur.Host
		t.parent = w.cur
	}
	if w.cfg.PCT && w.cfg.ManualSched {
		t.prio = 1 << 15
	} else if w.cfg.PCT {
		if t.ID == 0 {
			t.prio = 1 << 15
			w.evPrio = int64(1 + Choose(1<<16, KPrio))
		} else {
			t.prio = int64(1 + Choose(1<<16, KPrio))
		}
	}
	if w.tasksTail == nil {
		w.tasks = t
	} else {
		w.tasksTail.next = t
	}
	w.tasksTail = t
	return t
}

// Go starts f as a new simulator task. It is what a rewritten `go` statement calls.
//
//go:norace
func Go(site string, f func()) *Task {
	return spawn(site, site, true, "", f)
}

// GoHarness starts a harness task on the given simulated host ("" = inherit).
//
//go:norace
func GoHarness(name, host string, f func()) *Task {
	return spawn(name, name, false, host, f)
}

//go:norace
func spawn(name, site string, sut bool, host string, f func()) *Task {
	w := W
	if w == nil {
		panic("sim/rt: Go outside a simulation")
	}
	if w.aborting {
		return &Task{state: stDone}
	}
	t := w.newTask(name, site, sut)
	if host != "" {
		t.Host = host
	}
	if w.cfg.Verbose {
		Tracef("spawn task %d %s", t.ID, name)
	}
	w.mix(100, uint64(t.ID))
	go taskMain(w, t, f) // real `go`: the race detector records parent -> child
	return t
}

func taskMain(w *World, t *Task, f func()) {
	park(t)
	if w.aborting {
		exitAborted(w, t)
		return
	}
	defer taskEnd(w, t)
	startGap(w, t)
	f()
}

// taskEnd runs as a deferred call of the task goroutine: normal return, panic or Goexit.
//
//go:norace
func taskEnd(w *World, t *Task) {
	if r := recover(); r != nil {
		if !w.aborting {
			t.panicVal = fmt.Sprint(r)
			w.setVerdict("panic", panicKey(), fmt.Sprintf("task %s panicked: %v\n%s", t.Name, r, debug.Stack()))
		}
	}
	RaceReleaseMerge(unsafe.Pointer(&t.exitTok))
	RaceReleaseMerge(unsafe.Pointer(&w.joinTok))
	if w.aborting {
		exitAborted(w, t)
		return
	}
	t.state = stDone
	w.epoch++
	if t.ID == 0 {
		w.ended = true
	}
	w.resched(t, false)
}

//go:norace
func exitAborted(w *World, t *Task) {
	t.state = stDone
	RaceDisable()
	w.ack <- struct{}{}
	RaceEnable()
}

//go:norace
func park(t *Task) {
	RaceDisable()
	<-t.wake
	RaceEnable()
}

//go:norace
func signal(t *Task) {
	RaceDisable()
	t.wake <- struct{}{}
	RaceEnable()
}

//go:norace
func (w *World) setVerdict(class, key, msg string) {
	if w.verdict == nil {
		w.verdict = &Verdict{Class: class, Key: key, Msg: msg}
	}
}

// Fail lets the harness end the run with a violation found by an in-run oracle.
//
//go:norace
func Fail(class, key, msg string) {
	w := W
	if w.aborting {
		return
	}
	w.setVerdict(class, key, msg)
	w.endRun(w.cur)
}

// panicKey derives a line-free key (innermost Manticore function) from the stack of a panic.
func panicKey() string {
	pcs := make([]uintptr, 64)
	n := runtime.Callers(3, pcs)
	fr := runtime.CallersFrames(pcs[:n])
	for {
		f, more := fr.Next()
		if containsStr(f.Function, "TheManticoreProject/Manticore") {
			return shortFunc(f.Function)
		}
		if !more {
			break
		}
	}
	return "unknown"
}

//go:norace
func containsStr(s, sub string) bool {
	for i := 0; i+len(sub) <= len(s); i++ {
		if s[i:i+len(sub)] == sub {
			return true
		}
	}
	return false
}

func shortFunc(fn string) string {
	// github.com/TheManticoreProject/Manticore/network/llmnr.(*Server).Serve -> llmnr.(*Server).Serve
	last := 0
	for i := 0; i < len(fn); i++ {
		if fn[i] == '/' {
			last = i + 1
		}
	}
	return fn[last:]
}

// Run executes main as task 0 and returns when it returned, or when a verdict ended the run.
// Every task goroutine has exited when Run returns.
func (w *World) Run(main func()) *Verdict {
	if W != nil {
		panic("sim/rt: nested Run")
	}
	W = w
	t := w.newTask("main", "main", false)
	t.gap = 0
	go taskMain(w, t, main)
	w.cur = t
	t.state = stRunning
	signal(t)
	<-w.done
	RaceAcquire(unsafe.Pointer(&w.joinTok))
	W = nil
	w.Stats.Steps = int64(w.seq)
	return w.verdict
}

// ---------------------------------------------------------------- scheduling

//go:norace
func (w *World) taskReady(t *Task) bool {
	switch t.state {
	case stRunnable:
		return true
	case stBlocked:
		if t.killed {
			return true
		}
		if t.wdeadline >= 0 && w.now >= t.wdeadline {
			return true
		}
		if t.wobj != nil && t.wobj.Ready(t) {
			return true
		}
	}
	return false
}

const maxCands = 96

// pick decides who runs next. It fires due events inline. nil means the run is over.
//
//go:norace
func (w *World) pick(cur *Task, preempt bool) *Task {
	var cands [maxCands]*Task
	var evs [16]*Event
	for {
		if w.verdict != nil || w.ended {
			return nil
		}
		if int64(w.seq) > w.cfg.MaxSteps {
			name := "?"
			if cur != nil {
				name = cur.Name
			}
			w.setVerdict("step_budget", name, fmt.Sprintf("run exceeded %d steps (scheduling decisions included); last task %s", w.cfg.MaxSteps, name))
			return nil
		}
		if u := w.urgent; u != nil {
			if u.state == stDone {
				w.urgent = nil
			} else if w.taskReady(u) {
				return u
			}
		}
		n := 0
		curReady := cur != nil && cur.state == stRunnable && !cur.stalled
		if curReady && !preempt {
			cands[0] = cur
			n = 1
		}
		for t := w.tasks; t != nil; t = t.next {
			if t == cur && (curReady) {
				continue
			}
			if n < maxCands && !t.stalled && w.taskReady(t) {
				cands[n] = t
				n++
			}
		}
		nt := n
		if preempt && curReady && nt == 0 {
			// nobody else to run: preemption is a no-op unless an event is due
			cands[0] = cur
			n, nt = 1, 1
		}
		ne := 0
		var chains [16]uintptr
		nch := 0
		for e := w.ev; e != nil && e.at <= w.now && ne < len(evs); e = e.next {
			if e.Dead {
				continue
			}
			if e.Chain != 0 {
				dup := false
				for i := 0; i < nch; i++ {
					if chains[i] == e.Chain {
						dup = true
					}
				}
				if dup {
					continue // an earlier event of the same FIFO chain must fire first
				}
				if nch < len(chains) {
					chains[nch] = e.Chain
					nch++
				}
			}
			evs[ne] = e
			ne++
			if w.Quiet {
				break // quiet phase: due events fire in the order they were scheduled (no reordering)
			}
		}
		total := nt + ne
		// optional: let time pass although tasks are runnable (slow / stalled tasks)
		skip := 0
		if !w.Quiet && !w.NoSkip && nt > 0 && ne == 0 && w.ev != nil {
			skip = 1
		}
		if total == 0 && w.nStalled > 0 {
			// everybody else has run dry: the stalled tasks are back
			for t := w.tasks; t != nil; t = t.next {
				t.stalled = false
			}
			w.nStalled = 0
			continue
		}
		if total == 0 {
			// everybody is blocked: jump the clock to the next event
			for w.ev != nil && w.ev.Dead {
				w.ev = w.ev.next
			}
			if w.ev == nil {
				w.deadlock()
				return nil
			}
			if w.ev.at > w.now {
				w.now = w.ev.at
				w.Stats.ClockJumps++
			}
			continue
		}
		var k int
		if skip == 1 && Choose(2, KTimeSkip) == 1 {
			for w.ev != nil && w.ev.Dead {
				w.ev = w.ev.next
			}
			if w.ev != nil {
				w.now = w.ev.at
				w.Stats.TimeSkips++
				if w.cfg.Verbose {
					Tracef("TIMESKIP to %s", fmtDur(w.now))
				}
				continue
			}
		}
		if w.cfg.PCT && !w.Quiet {
			best := -1
			for i := 0; i < nt; i++ {
				if best < 0 || cands[i].prio > cands[best].prio {
					best = i
				}
			}
			if ne > 0 && (best < 0 || w.evPrio > cands[best].prio) {
				k = nt
				if ne > 1 {
					k = nt + Choose(ne, KSchedU) // datagrams may still overtake each other
				}
			} else {
				k = best
			}
		} else if curReady && !preempt {
			k = Choose(total, KSched)
		} else {
			k = Choose(total, KSchedU)
		}
		if k < nt {
			return cands[k]
		}
		e := evs[k-nt]
		w.removeEvent(e)
		e.fired = true
		w.Stats.Events++
		w.seq++
		saved := w.cur
		w.cur = nil
		e.f.Fire()
		w.cur = saved
	}
}

//go:norace
func (w *World) removeEvent(e *Event) {
	if w.ev == e {
		w.ev = e.next
		return
	}
	for p := w.ev; p != nil; p = p.next {
		if p.next == e {
			p.next = e.next
			return
		}
	}
}

// Cancel removes a pending event.
//
//go:norace
func Cancel(e *Event) {
	if e != nil {
		e.Dead = true
	}
}

//go:norace
func (w *World) deadlock() {
	msg := "deadlock: every task is blocked and no event is pending\n"
	// key: the distinct operations the tasks are blocked in (harness joins excluded), sorted
	var reasons [8]string
	nr := 0
	for t := w.tasks; t != nil; t = t.next {
		if t.state != stBlocked {
			continue
		}
		msg += fmt.Sprintf("  task %d %s (created at %s) blocked in %s\n", t.ID, t.Name, t.Site, t.Wreason)
		if len(t.Wreason) >= 5 && t.Wreason[:5] == "join " {
			continue
		}
		dup := false
		for i := 0; i < nr; i++ {
			if reasons[i] == t.Wreason {
				dup = true
			}
		}
		if !dup && nr < len(reasons) {
			reasons[nr] = t.Wreason
			nr++
		}
	}
	for i := 1; i < nr; i++ {
		for j := i; j > 0 && reasons[j] < reasons[j-1]; j-- {
			reasons[j], reasons[j-1] = reasons[j-1], reasons[j]
		}
	}
	key := ""
	for i := 0; i < nr; i++ {
		if i > 0 {
			key += "+"
		}
		key += reasons[i]
	}
	if key == "" {
		key = "harness"
	}
	w.setVerdict("deadlock", key, msg)
}

// resched is called by the running task after it changed its own state.
//
//go:norace
func (w *World) resched(cur *Task, preempt bool) {
	next := w.pick(cur, preempt)
	if next == nil {
		w.endRun(cur)
		return
	}
	if next == cur {
		cur.state = stRunning
		return
	}
	w.Stats.Switches++
	w.mix(7, uint64(next.ID))
	if w.cfg.Verbose {
		Tracef("switch -> task %d %s", next.ID, next.Name)
	}
	next.state = stRunning
	w.cur = next
	signal(next)
	if cur.state == stDone {
		return
	}
	park(cur)
	if w.aborting || cur.killed {
		runtime.Goexit()
	}
}

// endRun aborts every other task, then finishes the run. Called by the running task.
//
//go:norace
func (w *World) endRun(cur *Task) {
	if w.aborting {
		return
	}
	if w.AbortHook != nil {
		w.AbortHook()
	}
	w.aborting = true
	for t := w.tasks; t != nil; t = t.next {
		if t == cur || t.state == stDone {
			continue
		}
		signal(t)
		RaceDisable()
		<-w.ack
		RaceEnable()
	}
	selfLive := cur != nil && cur.state != stDone
	if selfLive {
		// unwind this task too; its deferred taskEnd acks
		go w.finishAfterAck()
		runtime.Goexit()
	}
	w.done <- struct{}{}
}

func (w *World) finishAfterAck() {
	<-w.ack
	w.done <- struct{}{}
}

// Block parks the running task until obj.Ready(t) or the deadline (absolute sim ns, -1 = none).
// It returns false if the deadline expired first.
//
//go:norace
func Block(obj Waitable, arg int, reason string, deadline int64) bool {
	w := W
	if w == nil {
		panic("sim/rt: blocking call outside a simulation: " + reason)
	}
	if w.aborting {
		runtime.Goexit()
	}
	t := w.cur
	if w.urgent == t {
		w.urgent = nil
	}
	t.wobj, t.Warg, t.Wreason, t.wdeadline = obj, arg, reason, deadline
	t.TimedOut = false
	t.state = stBlocked
	t.since = 0
	if deadline >= 0 && !(w.lastNop != nil && !w.lastNop.fired && !w.lastNop.Dead && w.lastNop.at == deadline) {
		// (one wake-up event per deadline value: a loop of thousands of short reads under one read deadline
		// would otherwise pile up thousands of events at the same instant)
		w.lastNop = w.At(deadline, nop{})
	}
	if w.cfg.Verbose {
		Tracef("block: %s", reason)
	}
	w.seq++
	w.resched(t, false)
	// running again
	ok := true
	if t.wobj != nil && !t.wobj.Ready(t) {
		ok = false
		t.TimedOut = true
	}
	t.wobj, t.wdeadline = nil, -1
	w.afterResume(t)
	return ok
}

// startGap: a new task draws its first preemption gap like a resumed one (otherwise a goroutine could
// never be preempted before its first blocking call).
//
//go:norace
func startGap(w *World, t *Task) {
	if t.ID != 0 && !w.cfg.ManualSched {
		w.afterResume(t)
	}
}

//go:norace
func (w *World) afterResume(t *Task) {
	if w.cfg.ManualSched {
		t.gap = 0
		return
	}
	t.gap = gapTable[Choose(len(gapTable), KGap)]
}

// gapTable: the number of statements a resumed task runs before it is preempted (0 = not at all). Gaps of 1..8 are
// listed twice because most windows sit right behind a blocking call; the tail reaches windows that lie hundreds
// of statements after the last blocking call (e.g. behind an encoder) with a single preemption.
var gapTable = [...]int{0, 1, 2, 3, 4, 5, 6, 7, 8, 1, 2, 3, 4, 5, 6, 7, 8, 9, 10, 11, 12, 13, 14, 15, 16, 17, 18, 19, 20,
	21, 22, 23, 24, 28, 32, 40, 50, 64, 80, 100, 128, 160, 200, 256, 320, 400, 512}

// Yield is a voluntary scheduling point (harness).
//
//go:norace
func Yield() {
	w := W
	if w.aborting {
		return
	}
	t := w.cur
	t.state = stRunnable
	w.seq++
	w.resched(t, false)
	w.afterResume(t)
}

// StallAfter: the calling task deschedules itself after its next n statements, until every other task has run as
// far as it can and every due event has been delivered (the second preemption of a two-preemption schedule).
//
//go:norace
func StallAfter(n int) {
	if W != nil && W.cur != nil {
		W.cur.stallGap = n
	}
}

// StallPoint is called by the simulated transport when a send returns: with the run's stall probability the
// calling task is descheduled, as a thread may be on return from a system call, and stays so until every other
// task has run as far as it can and every due event has been delivered. No simulated time passes. This is what
// opens the window between "the request is on the wire" and the sender's next statement to everybody else,
// however many tasks compete for the processor.
//
//go:norace
func StallPoint() {
	w := W
	if w == nil || w.aborting || w.Quiet || w.cur == nil || w.cur == w.urgent {
		return
	}
	if !Chance(KStall) {
		return
	}
	t := w.cur
	w.Stats.Stalls++
	if w.cfg.Verbose {
		Tracef("STALL after send")
	}
	t.stalled = true
	w.nStalled++
	t.state = stRunnable
	w.seq++
	w.resched(t, true)
	w.afterResume(t)
}

// SetMaxSteps adjusts the run's step budget once the harness knows how much work the run's workload is.
//
//go:norace
func (w *World) SetMaxSteps(n int64) { w.cfg.MaxSteps = n }

// Gosched is runtime.Gosched of rewritten SUT code: everybody else who can run goes first.
//
//go:norace
func Gosched() {
	w := W
	if w.aborting {
		return
	}
	t := w.cur
	t.state = stRunnable
	w.seq++
	w.resched(t, true)
	w.afterResume(t)
}

// CountLive counts the tasks that have not exited.
//
//go:norace
func CountLive() int {
	n := 0
	for t := W.tasks; t != nil; t = t.next {
		if t.state != stDone {
			n++
		}
	}
	return n
}

const fairEvery = 1024
const spinBurnsTime = 20 * fairEvery
const livelockPoints = 300_000

// Point is inserted before every statement of rewritten SUT code.
//
//go:norace
func Point(id int) {
	w := W
	if w == nil || w.aborting {
		return
	}
	t := w.cur
	if id < len(w.Points) {
		w.Points[id]++
	}
	w.seq++
	t.since++
	if int64(w.seq) > w.cfg.MaxSteps {
		w.setVerdict("step_budget", t.Site, fmt.Sprintf("run exceeded %d steps; task %s (created at %s) has run %d points since it last blocked", w.cfg.MaxSteps, t.Name, t.Site, t.since))
		w.endRun(t)
		return
	}
	if t.stallGap > 0 {
		t.stallGap--
		if t.stallGap == 0 {
			if w.cfg.Verbose {
				Tracef("STALL (requested) at point %d", id)
			}
			if w.urgent == t {
				w.urgent = nil
			}
			w.Stats.Stalls++
			w.mix(11, uint64(id))
			t.stalled = true
			w.nStalled++
			t.state = stRunnable
			w.resched(t, true)
			w.afterResume(t)
			return
		}
	}
	if w.ptTask != nil && w.ptTask != t && w.ptLeft > 0 {
		w.ptLeft--
		if w.ptLeft == 0 {
			// the parked harness task is released exactly here, between two statements of t
			w.Stats.Preemptions++
			w.mix(10, uint64(id))
			if w.cfg.Verbose {
				Tracef("INTERRUPT at point %d", id)
			}
			w.urgent = w.ptTask
			t.state = stRunnable
			if w.ptStall {
				// the interrupted task stays off the processor until everybody else has run dry
				t.stalled = true
				w.nStalled++
			}
			w.resched(t, true)
			w.afterResume(t)
			return
		}
	}
	if t.gap > 0 {
		t.gap--
		if t.gap == 0 {
			w.Stats.Preemptions++
			w.mix(9, uint64(id))
			if w.cfg.Verbose {
				Tracef("PREEMPT at point %d", id)
			}
			t.state = stRunnable
			if w.cfg.PCT {
				w.lowPrio--
				t.prio = w.lowPrio // a priority change point: everybody else now goes first
				w.resched(t, false)
			} else {
				w.resched(t, true)
			}
			w.afterResume(t)
		}
		return
	}
	if t.since%fairEvery == 0 {
		if t.since > livelockPoints {
			w.setVerdict("livelock", t.Site, fmt.Sprintf("task %s (created at %s) executed %d statements without ever blocking (last point %d)", t.Name, t.Site, t.since, id))
			w.endRun(t)
			return
		}
		// fairness: a task that never blocks lets everybody else run; if it keeps
		// spinning it also burns time (timers of other tasks fire)
		w.spinYield(t, t.since >= spinBurnsTime)
	}
}

//go:norace
func (w *World) spinYield(t *Task, burn bool) {
	if burn {
		for w.ev != nil && w.ev.Dead {
			w.ev = w.ev.next
		}
		if w.ev != nil && w.ev.at > w.now {
			w.now = w.ev.at
		}
	}
	t.state = stRunnable
	if w.cfg.PCT {
		w.lowPrio--
		t.prio = w.lowPrio
	}
	w.resched(t, true)
	t.gap = 0
}

// LiveSUTTasks lists SUT tasks that have not exited.
//
//go:norace
func LiveSUTTasks() []*Task {
	var out []*Task
	for t := W.tasks; t != nil; t = t.next {
		if t.SUT && t.state != stDone {
			out = append(out, t)
		}
	}
	return out
}

// StateCond is a Waitable over the simulator's own view of the SUT: it lets the harness place a fault
// (a Stop, a Close) at the moment an interesting internal condition holds, instead of at a random time.
//
//	BlockedIn != "": some SUT task is blocked in an operation whose description contains it
//	LiveSite/LiveAtLeast: at least that many SUT tasks created at a site containing LiveSite are alive
type StateCond struct {
	BlockedIn   string
	LiveSite    string
	LiveAtLeast int
}

//go:norace
func (c *StateCond) Ready(*Task) bool {
	if c.BlockedIn != "" {
		for t := W.tasks; t != nil; t = t.next {
			if t.SUT && t.state == stBlocked && containsStr(t.Wreason, c.BlockedIn) {
				return true
			}
		}
		return false
	}
	return CountLiveSUT(c.LiveSite) >= c.LiveAtLeast
}

// WaitState blocks until the condition holds or the absolute sim deadline passes.
//
//go:norace
func WaitState(c *StateCond, deadline int64) bool {
	if c.Ready(nil) {
		return true
	}
	return Block(c, 0, "harness: waiting for SUT state", deadline)
}

type pointWait struct{}

//go:norace
func (pointWait) Ready(*Task) bool { return W.ptLeft <= 0 }

// AfterPoints parks the calling harness task until the other tasks have executed n more statements, then runs it
// at once and ahead of everybody until it next blocks: a fault (a Stop, a Close) placed at an exact statement
// boundary of the SUT rather than at a random time. false = the deadline passed first (the SUT went idle earlier).
//
//go:norace
func AfterPoints(n int, deadline int64) bool {
	w := W
	if n <= 0 || w.aborting {
		return true
	}
	w.ptLeft, w.ptTask = n, w.cur
	ok := Block(pointWait{}, 0, "harness: waiting for SUT statements", deadline)
	w.ptTask, w.ptLeft = nil, 0
	return ok
}

// ReapBlockedSUT ends every task the SUT spawned that is blocked right now (the goroutines a value of the SUT
// started and that nobody will ever wake again once the harness drops the value) and waits until they are gone.
// For enumerations that build thousands of SUT values inside one run; a reaped task unwinds like Goexit.
//
//go:norace
func ReapBlockedSUT() int {
	w := W
	n := 0
	for t := w.tasks; t != nil; t = t.next {
		if t.SUT && t.state == stBlocked && !t.killed {
			t.killed = true
			n++
		}
	}
	if n == 0 {
		return 0
	}
	for t := w.tasks; t != nil; t = t.next {
		if t.killed && t.state != stDone {
			Join(t, -1)
		}
	}
	return n
}

// AfterPointsStall is AfterPoints, and the task that was running at that moment stays descheduled until every other
// task has run as far as it can: "X is suspended at its k-th statement while everything the caller then starts
// runs to completion".
//
//go:norace
func AfterPointsStall(n int, deadline int64) bool {
	W.ptStall = true
	ok := AfterPoints(n, deadline)
	W.ptStall = false
	return ok
}

// SetSched fixes a task's priority and the number of Points after which it is demoted (0 = never); call it right
// after spawning, before the task has run (ManualSched worlds only).
//
//go:norace
func SetSched(t *Task, prio int64, gap int) { t.prio, t.gap = prio, gap }

// CountLiveSUT counts SUT tasks that have not exited and whose creation site contains sub.
//
//go:norace
func CountLiveSUT(sub string) int {
	n := 0
	for t := W.tasks; t != nil; t = t.next {
		if t.SUT && t.state != stDone && containsStr(t.Site, sub) {
			n++
		}
	}
	return n
}

//go:norace
func (t *Task) Done() bool { return t.state == stDone }

//go:norace
func (t *Task) Blocked() bool { return t.state == stBlocked }

//go:norace
func (t *Task) StateString() string {
	switch t.state {
	case stRunning:
		return "running"
	case stRunnable:
		return "runnable (spinning, ran " + fmt.Sprint(t.since) + " statements since it last blocked)"
	case stBlocked:
		return "blocked in " + t.Wreason
	}
	return "done"
}

type joinWait struct{ t *Task }

//go:norace
func (j joinWait) Ready(*Task) bool { return j.t.state == stDone }

// Join waits for t to exit (with happens-before, like a real WaitGroup would give).
// deadline is absolute sim ns (-1 none); false on timeout.
//
//go:norace
func Join(t *Task, deadline int64) bool {
	if t.state != stDone {
		if !Block(joinWait{t}, 0, "join "+t.Name, deadline) {
			return false
		}
	}
	RaceAcquire(unsafe.Pointer(&t.exitTok))
	return true
}

type sleepWait struct{}

//go:norace
func (sleepWait) Ready(*Task) bool { return false }

// SleepUntil blocks the task until sim time `at`.
//
//go:norace
func SleepUntil(at int64) {
	if at <= W.now {
		Yield()
		return
	}
	Block(sleepWait{}, 0, "sleep", at)
}

// JumpClock moves simulated time forward by d (clock jump fault); timers that become due fire afterwards.
//
//go:norace
func JumpClock(d int64) {
	w := W
	w.now += d
	w.Stats.ClockJumps++
	w.mix(11, uint64(d))
	if w.cfg.Verbose {
		Tracef("CLOCK JUMP +%s", fmtDur(d))
	}
}

// SetVerdict records a violation without ending the run itself (for code that runs inside events).
//
//go:norace
func SetVerdict(class, key, msg string) { W.setVerdict(class, key, msg) }

// Flag is a one-shot condition harness tasks can block on.
type Flag struct{ set bool }

//go:norace
func (f *Flag) Ready(*Task) bool { return f.set }

//go:norace
func (f *Flag) Set() { f.set = true; W.seq++ }

//go:norace
func (f *Flag) IsSet() bool { return f.set }

// Wait blocks until Set was called (or the absolute sim deadline passed; -1 none).
//
//go:norace
func (f *Flag) Wait(deadline int64) bool {
	for !f.set {
		if !Block(f, 0, "flag", deadline) {
			return false
		}
	}
	return true
}

// ResetSpin tells the livelock detector that the running (harness) task is making progress by design
// (an enumeration loop that never needs to block).
//
//go:norace
func ResetSpin() { W.cur.since = 0 }

// NextSerial returns 1, 2, 3, ... within the current run (for shims that must hand out distinct but
// reproducible values, e.g. hash seeds); 0-based counting restarts with every run.
//
//go:norace
func NextSerial() uint64 {
	if W == nil {
		return 1
	}
	W.serial++
	return W.serial
}

// Kick tells the scheduler that a channel changed state outside rewritten code (e.g. context cancel).
//
//go:norace
func Kick() { W.epoch++ }
