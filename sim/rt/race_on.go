//go:build race

package rt

import (
	"runtime"
	"unsafe"
)

// RaceBuild reports whether the binary was built with -race.
const RaceBuild = true

//go:norace
func RaceDisable() { runtime.RaceDisable() }

//go:norace
func RaceEnable() { runtime.RaceEnable() }

//go:norace
func RaceAcquire(p unsafe.Pointer) { runtime.RaceAcquire(p) }

//go:norace
func RaceRelease(p unsafe.Pointer) { runtime.RaceRelease(p) }

//go:norace
func RaceReleaseMerge(p unsafe.Pointer) { runtime.RaceReleaseMerge(p) }

//go:norace
func RaceReadRange(p unsafe.Pointer, n int) {
	if n > 0 {
		runtime.RaceReadRange(p, n)
	}
}

//go:norace
func RaceWriteRange(p unsafe.Pointer, n int) {
	if n > 0 {
		runtime.RaceWriteRange(p, n)
	}
}
