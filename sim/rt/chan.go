package rt

import (
	"runtime"
	"unsafe"
)

// Channel operations of rewritten SUT code. Channels stay real Go channels;
// what the simulator owns is (a) which ready case a select takes, (b) parking:
// a task that cannot proceed waits in the scheduler, never in the Go runtime.

type SelCase interface {
	try() bool
	key() uintptr
	isSend() bool
	unbuffered() bool
	give() any
	take(v any)
}

type RecvC[T any] struct {
	ch  <-chan T
	Val T
	Ok  bool
}

type SendC[T any] struct {
	ch chan<- T
	v  T
}

//go:norace
func RecvCase[T any](ch <-chan T) *RecvC[T] { return &RecvC[T]{ch: ch} }

//go:norace
func SendCase[T any](ch chan<- T, v T) *SendC[T] { return &SendC[T]{ch: ch, v: v} }

//go:norace
func (c *RecvC[T]) try() bool {
	select {
	case v, ok := <-c.ch:
		c.Val, c.Ok = v, ok
		return true
	default:
		return false
	}
}

//go:norace
func (c *RecvC[T]) key() uintptr { return *(*uintptr)(unsafe.Pointer(&c.ch)) }

//go:norace
func (c *RecvC[T]) isSend() bool { return false }

//go:norace
func (c *RecvC[T]) unbuffered() bool { return c.ch != nil && cap(c.ch) == 0 }

//go:norace
func (c *RecvC[T]) give() any { return nil }

//go:norace
func (c *RecvC[T]) take(v any) { c.Val, c.Ok = v.(T), true }

//go:norace
func (c *SendC[T]) try() bool {
	select {
	case c.ch <- c.v:
		return true
	default:
		return false
	}
}

//go:norace
func (c *SendC[T]) key() uintptr { return *(*uintptr)(unsafe.Pointer(&c.ch)) }

//go:norace
func (c *SendC[T]) isSend() bool { return true }

//go:norace
func (c *SendC[T]) unbuffered() bool { return c.ch != nil && cap(c.ch) == 0 }

//go:norace
func (c *SendC[T]) give() any { return c.v }

//go:norace
func (c *SendC[T]) take(v any) {}

type selWait struct{}

//go:norace
func (selWait) Ready(t *Task) bool { return t.selDone >= 0 || W.epoch != t.seenEpoch }

//go:norace
func (w *World) rendezvous(t *Task, c SelCase) bool {
	if !c.unbuffered() {
		return false
	}
	k := c.key()
	for p := w.tasks; p != nil; p = p.next {
		if p == t || p.state != stBlocked || p.sel == nil || p.selDone >= 0 {
			continue
		}
		for i, c2 := range p.sel {
			if c2 == nil || c2.key() != k || c2.isSend() == c.isSend() {
				continue
			}
			if c.isSend() {
				c2.take(c.give())
			} else {
				c.take(c2.give())
			}
			p.selDone = i
			RaceReleaseMerge(unsafe.Pointer(&p.selTok))
			RaceAcquire(unsafe.Pointer(&p.selTok))
			return true
		}
	}
	return false
}

// Select runs a rewritten select statement. It returns the index of the case
// that fired, or -1 for default.
//
//go:norace
func Select(hasDefault bool, cases ...SelCase) int {
	w := W
	if w == nil {
		panic("sim/rt: select outside a simulation")
	}
	if w.aborting {
		if hasDefault {
			return -1
		}
		runtime.Goexit()
	}
	t := w.cur
	n := len(cases)
	if n == 0 && !hasDefault {
		t.sel = cases
		t.selDone = -1
		t.seenEpoch = ^uint64(0) >> 1
		for {
			Block(sleepWait{}, 0, "select{}", -1)
		}
	}
	for {
		start := 0
		if n > 1 {
			start = Choose(n, KSelect)
		}
		for i := 0; i < n; i++ {
			idx := (start + i) % n
			c := cases[idx]
			if c.try() || w.rendezvous(t, c) {
				w.epoch++
				w.seq++
				if w.cfg.Verbose {
					Tracef("select case %d of %d", idx, n)
				}
				return idx
			}
		}
		if hasDefault {
			return -1
		}
		t.sel = cases
		t.selDone = -1
		t.seenEpoch = w.epoch
		RaceReleaseMerge(unsafe.Pointer(&t.selTok))
		reason := "channel receive"
		if n > 1 {
			reason = "select"
		} else if n == 1 && cases[0].isSend() {
			reason = "channel send"
		}
		Block(selWait{}, 0, reason, -1)
		done := t.selDone
		t.sel = nil
		t.selDone = -1
		if done >= 0 {
			RaceAcquire(unsafe.Pointer(&t.selTok))
			w.epoch++
			return done
		}
	}
}

//go:norace
func Recv[T any](ch <-chan T) T {
	c := RecvCase(ch)
	Select(false, c)
	return c.Val
}

//go:norace
func Recv2[T any](ch <-chan T) (T, bool) {
	c := RecvCase(ch)
	Select(false, c)
	return c.Val, c.Ok
}

//go:norace
func Send[T any](ch chan<- T, v T) {
	Select(false, SendCase(ch, v))
}

//go:norace
func Close[T any](ch chan<- T) {
	close(ch)
	if W != nil {
		W.epoch++
		if W.cfg.Verbose {
			Tracef("close(chan)")
		}
	}
}

// CloseNative is for harness code that closes channels the SUT selects on.
func CloseNative[T any](ch chan T) { Close[T](ch) }
