// Package runtime is the simulated stand-in for "runtime" in rewritten SUT code. What a program can learn from
// the real package about the machine and the scheduler (GOMAXPROCS, NumCPU, NumGoroutine) is per-process
// nondeterminism: here those come from the run's choice stream or from the simulator's task table, Gosched is a
// scheduling point of the simulator, and everything else is the real thing.
package runtime

import (
	"runtime"

	"verif.local/sim/rt"
)

type (
	Error            = runtime.Error
	Frame            = runtime.Frame
	Frames           = runtime.Frames
	Func             = runtime.Func
	MemStats         = runtime.MemStats
	TypeAssertionErr = runtime.TypeAssertionError
	StackRecord      = runtime.StackRecord
	Pinner           = runtime.Pinner
	PanicNilError    = runtime.PanicNilError
)

const (
	GOOS     = runtime.GOOS
	GOARCH   = runtime.GOARCH
	Compiler = runtime.Compiler
)

var procsOf = [...]int{1, 2, 4, 8, 16}

// procs: one value per run, drawn the first time the SUT asks.
//
//go:norace
func procs() int {
	if rt.W == nil {
		return 4
	}
	if rt.W.Procs == 0 {
		rt.W.Procs = procsOf[rt.Choose(len(procsOf), rt.KGen)]
	}
	return rt.W.Procs
}

// GOMAXPROCS reports the run's simulated processor count; setting it only changes what later calls report.
//
//go:norace
func GOMAXPROCS(n int) int {
	old := procs()
	if n > 0 && rt.W != nil {
		rt.W.Procs = n
	}
	return old
}

//go:norace
func NumCPU() int { return procs() }

// NumGoroutine: the simulator's live tasks.
//
//go:norace
func NumGoroutine() int {
	if rt.W == nil {
		return 1
	}
	return rt.CountLive()
}

// Gosched lets every other runnable task go first.
//
//go:norace
func Gosched() {
	if rt.W == nil || rt.Aborting() {
		return
	}
	rt.Gosched()
}

// AddCleanup: cleanups run at the garbage collector's discretion, from a goroutine of the runtime -- a source of
// nondeterminism no run may depend on. "Never" is a legal schedule for them, and the only replayable one.
func AddCleanup[T, S any](ptr *T, cleanup func(S), arg S) Cleanup { return Cleanup{} }

type Cleanup = runtime.Cleanup

func Goexit()                                              { runtime.Goexit() }
func GC()                                                  {}
func KeepAlive(x any)                                      { runtime.KeepAlive(x) }
func SetFinalizer(obj any, finalizer any)                  {}
func Caller(skip int) (uintptr, string, int, bool)         { return runtime.Caller(skip + 1) }
func Callers(skip int, pc []uintptr) int                   { return runtime.Callers(skip+1, pc) }
func CallersFrames(callers []uintptr) *Frames              { return runtime.CallersFrames(callers) }
func FuncForPC(pc uintptr) *Func                           { return runtime.FuncForPC(pc) }
func Stack(buf []byte, all bool) int                       { return runtime.Stack(buf, false) }
func ReadMemStats(m *MemStats)                             { *m = MemStats{} }
func Version() string                                      { return runtime.Version() }
func GOROOT() string                                       { return "" }
func NumCgoCall() int64                                    { return 0 }
func LockOSThread()                                        {}
func UnlockOSThread()                                      {}
func Breakpoint()                                          {}
func SetBlockProfileRate(rate int)                         {}
func SetMutexProfileFraction(rate int) int                 { return 0 }
func SetCPUProfileRate(hz int)                             {}
func GoroutineProfile(p []StackRecord) (n int, ok bool)    { return 0, true }
func ThreadCreateProfile(p []StackRecord) (n int, ok bool) { return 0, true }
