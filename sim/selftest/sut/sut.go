// Package sut is a synthetic "system under test" for the simulator's own self-test: it uses every
// construct simgen rewrites (go statements with arguments, select with and without default, labeled
// break/continue out of select, send/receive/range/close on buffered and unbuffered channels, map
// ranges) and every primitive the shims provide (Mutex, RWMutex, WaitGroup, Once, Cond, Map, Pool,
// timers, tickers, AfterFunc, Sleep). It is rewritten by simgen exactly like the Manticore packages.
package sut

import (
	"sync"
	"time"
)

// PingPong bounces n values over two unbuffered channels between two goroutines.
func PingPong(n int) int {
	ping, pong := make(chan int), make(chan int)
	done := make(chan int)
	go func() {
		sum := 0
		for v := range ping {
			sum += v
			pong <- v + 1
		}
		done <- sum
	}()
	got := 0
	for i := 0; i < n; i++ {
		ping <- i
		got += <-pong
	}
	close(ping)
	return got + <-done
}

// LabeledLoop exercises labeled break / continue through a select inside a for.
func LabeledLoop(in <-chan int, quit <-chan struct{}) (sum, skipped int) {
outer:
	for {
		select {
		case v, ok := <-in:
			if !ok {
				break outer
			}
			if v%3 == 0 {
				skipped++
				continue outer
			}
			sum += v
		case <-quit:
			break outer
		}
	}
	return
}

// Counter is incremented under a mutex by many goroutines.
type Counter struct {
	mu sync.Mutex
	n  int
	m  map[string]int
}

func (c *Counter) Run(workers, per int, locked bool) int {
	var wg sync.WaitGroup
	c.m = map[string]int{}
	for w := 0; w < workers; w++ {
		wg.Add(1)
		go func(id int, times int) {
			defer wg.Done()
			for i := 0; i < times; i++ {
				if locked {
					c.mu.Lock()
				}
				c.n++
				if locked {
					c.mu.Unlock()
				}
			}
		}(w, per)
	}
	wg.Wait()
	return c.n
}

// Timers returns the simulated time that passed while waiting for a ticker (k ticks of d), an After and an AfterFunc.
func Timers(k int, d time.Duration) (elapsed time.Duration, ticks int, afterFuncRan bool) {
	start := time.Now()
	t := time.NewTicker(d)
	defer t.Stop()
	fired := make(chan struct{})
	time.AfterFunc(d/2, func() { close(fired) })
	for ticks < k {
		<-t.C
		ticks++
	}
	select {
	case <-fired:
		afterFuncRan = true
	default:
	}
	<-time.After(d)
	time.Sleep(d)
	return time.Since(start), ticks, afterFuncRan
}

// Queue is a bounded producer/consumer queue on a sync.Cond.
type Queue struct {
	mu    sync.Mutex
	cond  *sync.Cond
	items []int
	cap   int
}

func NewQueue(capacity int) *Queue {
	q := &Queue{cap: capacity}
	q.cond = sync.NewCond(&q.mu)
	return q
}

func (q *Queue) Put(v int) {
	q.mu.Lock()
	for len(q.items) >= q.cap {
		q.cond.Wait()
	}
	q.items = append(q.items, v)
	q.cond.Broadcast()
	q.mu.Unlock()
}

func (q *Queue) Get() int {
	q.mu.Lock()
	for len(q.items) == 0 {
		q.cond.Wait()
	}
	v := q.items[0]
	q.items = q.items[1:]
	q.cond.Broadcast()
	q.mu.Unlock()
	return v
}

// ProduceConsume moves n items through the queue with p producers and returns their sum as seen by the consumer.
func ProduceConsume(n, p int) int {
	q := NewQueue(2)
	var wg sync.WaitGroup
	for i := 0; i < p; i++ {
		wg.Add(1)
		go func(base int) {
			defer wg.Done()
			for k := 0; k < n; k++ {
				q.Put(base + k)
			}
		}(i * 1000)
	}
	sum := 0
	for i := 0; i < n*p; i++ {
		sum += q.Get()
	}
	wg.Wait()
	return sum
}

// SelectBoth reports which of two simultaneously ready channels a select took.
func SelectBoth() int {
	a, b := make(chan int, 1), make(chan int, 1)
	a <- 1
	b <- 2
	select {
	case v := <-a:
		return v
	case v := <-b:
		return v
	}
}

// DeadlockAB takes two locks in opposite orders from two goroutines.
func DeadlockAB() {
	var a, b sync.Mutex
	var wg sync.WaitGroup
	wg.Add(2)
	go func() {
		defer wg.Done()
		a.Lock()
		b.Lock()
		b.Unlock()
		a.Unlock()
	}()
	go func() {
		defer wg.Done()
		b.Lock()
		a.Lock()
		a.Unlock()
		b.Unlock()
	}()
	wg.Wait()
}

// MapOrder ranges over a map and a sync.Map and returns the visiting orders.
func MapOrder() (plain []string, synced []string) {
	m := map[string]int{"delta": 4, "alpha": 1, "charlie": 3, "bravo": 2}
	for k := range m {
		plain = append(plain, k)
	}
	var sm sync.Map
	for _, k := range []string{"x", "a", "m"} {
		sm.Store(k, 1)
	}
	sm.Range(func(k, _ any) bool {
		synced = append(synced, k.(string))
		return true
	})
	return
}

// OnceAndPool: Once runs once among racing callers; a Pool hands back what was put.
func OnceAndPool(callers int) (runs int, reused bool) {
	var once sync.Once
	var wg sync.WaitGroup
	var mu sync.Mutex
	for i := 0; i < callers; i++ {
		wg.Add(1)
		go func() {
			defer wg.Done()
			once.Do(func() {
				mu.Lock()
				runs++
				mu.Unlock()
			})
		}()
	}
	wg.Wait()
	p := sync.Pool{New: func() any { return new(int) }}
	x := p.Get().(*int)
	*x = 42
	p.Put(x)
	for i := 0; i < 8 && !reused; i++ {
		y := p.Get().(*int)
		reused = *y == 42
		p.Put(y)
	}
	return
}

// RWReaders lets readers overlap and a writer exclude them; returns the maximum number of concurrent readers seen.
func RWReaders(readers int) (maxReaders int, writerSawReaders bool) {
	var rw sync.RWMutex
	var mu sync.Mutex
	cur := 0
	var wg sync.WaitGroup
	for i := 0; i < readers; i++ {
		wg.Add(1)
		go func() {
			defer wg.Done()
			rw.RLock()
			mu.Lock()
			cur++
			if cur > maxReaders {
				maxReaders = cur
			}
			mu.Unlock()
			time.Sleep(time.Millisecond)
			mu.Lock()
			cur--
			mu.Unlock()
			rw.RUnlock()
		}()
	}
	wg.Add(1)
	go func() {
		defer wg.Done()
		rw.Lock()
		mu.Lock()
		if cur != 0 {
			writerSawReaders = true
		}
		mu.Unlock()
		rw.Unlock()
	}()
	wg.Wait()
	return
}
