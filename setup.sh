#!/bin/bash
# Builds the driver and the rewriter and warms the Go build cache (race-instrumented
# standard library) so that the first check does not pay for it. Offline.
export GOFLAGS=-mod=mod GOPROXY=off GOSUMDB=off GOTOOLCHAIN=local
set -e
cd /verif
mkdir -p bin build evidence replays
go1.26.8 build -o bin/simgen ./simgen
go1.26.8 build -o bin/verifcheck ./cmd/verifcheck
printf 'module build.ignore\n' > build/go.mod
bin/simgen -lint /verif/sim
bin/simgen -repo /repo -out /verif/build/overlay-warm
go1.26.8 build -race -gcflags='github.com/TheManticoreProject/Manticore/...=-l' -overlay build/overlay-warm/overlay.json -o build/worker-warm-race ./harness/worker
go1.26.8 build -overlay build/overlay-warm/overlay.json -o build/worker-warm ./harness/worker
rm -rf build/worker-warm-race build/worker-warm build/overlay-warm
./check selftest
echo "setup ok"
