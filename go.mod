module verif.local

go 1.24.0

require (
	github.com/TheManticoreProject/Manticore v0.0.0
	github.com/anishathalye/porcupine v1.3.0
	golang.org/x/tools v0.29.0
)

replace github.com/TheManticoreProject/Manticore => /repo
